#!/bin/bash
# seeded_sweep.sh [ID-prefix ...] : regression of the checks against every kept seeded change, in isolation:
#   a scratch worktree of /repo (patch applied there, never in /repo) and a scratch copy of /verif (so that build/ and evidence/ of the
#   real /verif are untouched).  Prints one line per seeded change: DETECTED (check exits 1 with a VIOLATION line) or MISSED.
V=/verif; WT=$(mktemp -d /tmp/seedwt.XXXX); VC=$(mktemp -d /tmp/seedverif.XXXX)
trap 'git -C /repo worktree remove --force $WT/repo 2>/dev/null; git -C /repo worktree prune; rm -rf $WT $VC' EXIT
git -C /repo worktree add --detach $WT/repo HEAD >/dev/null 2>&1 || exit 2
[ -f /repo/src/config.h ] && cp /repo/src/config.h $WT/repo/src/
rsync -a --exclude build --exclude .git --exclude replays $V/ $VC/; mkdir -p $VC/replays $VC/build
miss=0
for d in $V/seeded/*/; do
  id=$(basename $d); prop=${id%%-*}
  if [ $# -gt 0 ]; then ok=0; for p in "$@"; do case $id in $p*) ok=1;; esac; done; [ $ok = 1 ] || continue; fi
  tier=quick; grep -q -- '--tier thorough' $d/meta.json 2>/dev/null && tier=thorough
  git -C $WT/repo checkout -q -- . ; git -C $WT/repo apply $d/patch.diff || { echo "$id: PATCH-DOES-NOT-APPLY"; miss=1; continue; }
  ( cd $VC && REPO=$WT/repo timeout 3000 ./check $prop --tier $tier > $VC/out.txt 2>&1 ); rc=$?
  if [ $rc = 1 ] && grep -q "^VIOLATION property=$prop" $VC/out.txt; then echo "$id: DETECTED by ./check $prop --tier $tier ($(grep -A1 '^VIOLATION' $VC/out.txt | grep -m1 'component=' | cut -c1-160))"
  else echo "$id: MISSED (rc=$rc) by ./check $prop --tier $tier"; miss=1; fi
done
exit $miss
