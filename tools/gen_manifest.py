#!/usr/bin/env python3
"""regenerate MANIFEST.json from engine/registry.py (claimed properties) and engine/manifest_meta.py (texts)"""
import json, os, sys, subprocess
ROOT = os.path.dirname(os.path.dirname(os.path.abspath(__file__)))
sys.path.insert(0, os.path.join(ROOT, "engine"))
import registry, manifest_meta as mm

props = [json.loads(l) for l in open(os.path.join(ROOT, "properties.jsonl"))]
checks, na = [], []
for p in props:
    pid = p["id"]
    if pid in registry.PROPERTIES and pid in mm.META:
        m = mm.META[pid]
        checks.append({
            "property_id": pid,
            "quick_cmd": "./check %s --tier quick" % pid,
            "thorough_cmd": "./check %s --tier thorough" % pid,
            "evidence_file": "/verif/evidence/%s.json" % pid,
            "replay_cmd_template": "./check %s --replay {path}" % pid,
            "engine": m["engine"],
            "level_claimed": {"category": "model_checking", "text": m["text"], "design_ref": m.get("design_ref", "DESIGN.md section 4, " + pid)},
            "level_note": m["note"],
            "technique": m["technique"],
        })
    else:
        na.append({"property_id": pid, "reason": mm.NOT_APPLICABLE.get(pid, "check not built yet in this session; no claim is made")})
hooks_commits = subprocess.run("git -C /repo log --format=%h --grep='^verif hooks' ", shell=True, stdout=subprocess.PIPE, text=True).stdout.split()
man = {
    "version": 1,
    "setup_cmd": "true",
    "hooks": {
        "guard": "MYTH_VERIF",
        "enable": "every check compiles /repo/src/*.c itself with -DMYTH_VERIF (engine/build_lib.sh); E2 builds add -DMYTH_VERIF_NO_POINTS, small run queues use -DMYTH_VERIF_QUEUE_SIZE=<n>",
        "baseline_off_cmd": "cd /repo && make -j16 >/dev/null 2>&1 && make -C tests check -j8",
        "source_commits": hooks_commits,
        "add_only": True,
    },
    "engines": mm.ENGINES,
    "checks": checks,
    "notes": mm.NOTES,
    "not_applicable": na,
}
json.dump(man, open(os.path.join(ROOT, "MANIFEST.json"), "w"), indent=1)
print("MANIFEST.json: %d checks, %d not claimed" % (len(checks), len(na)))
