#!/bin/bash
# run_all.sh [quick|thorough] : every registered check against /repo's working tree, one after the other; refreshes evidence/*.json
cd "$(dirname "$0")/.."; tier=${1:-quick}; bad=0
[ -z "$(git -C /repo status --porcelain -- src include 2>/dev/null)" ] || { echo "warning: /repo has uncommitted changes in src/include"; }
for p in $(python3 -c "import json; print(' '.join(c['property_id'] for c in json.load(open('MANIFEST.json'))['checks']))"); do
  ./check $p --tier $tier > /tmp/run_all_$p.out 2>&1; rc=$?
  grep -E "^RESULT" /tmp/run_all_$p.out | cut -c1-160; grep -E "^VIOLATION|^CHECK-ERROR|^KNOWN" /tmp/run_all_$p.out | head -3
  [ $rc = 0 ] || { echo "  -> $p exit $rc"; bad=1; }
done
exit $bad
