#!/bin/bash
# confirm_mutation.sh WORKTREE SUBDIR(A|B) : independently confirm a seeded change in its scratch worktree:
#   builds with the change, runs the 257 tests, runs the demo with the change (expect failure) and without (expect pass)
wt=$1; sub=$2; d=$wt/mutation/$sub; log=$d/confirm.log
cd $wt || exit 2
exec > $log 2>&1
git checkout -- src include
[ -f Makefile ] || ./configure >/dev/null 2>&1
git apply $d/patch.diff || { echo "CONFIRM: patch does not apply"; exit 1; }
make -j8 >/dev/null 2>&1 || { echo "CONFIRM: does not compile"; git checkout -- src include; exit 1; }
echo "CONFIRM: compiles"
make -C tests check -j8 2>&1 | grep -E "^# (TOTAL|PASS|FAIL)"
build_demo() {
  if [ -f $d/demo.sh ]; then return 0; fi
  src=$d/demo.c; cc=gcc; [ -f $d/demo.cc ] && { src=$d/demo.cc; cc=g++; }; [ -f $d/demo.cpp ] && { src=$d/demo.cpp; cc=g++; }
  $cc -O0 -g -w -I$wt/include -I$wt/src $src -o $d/demo.bin -L$wt/src/.libs -lmyth -Wl,-rpath,$wt/src/.libs -lpthread 2>&1 | tail -3
}
run_demo() {
  if [ -f $d/demo.sh ]; then ( cd $d && timeout 300 bash ./demo.sh ); return $?; fi
  args=$(grep -m1 -o 'DEMO_ARGS:.*' $d/README.md | sed 's/DEMO_ARGS://')
  ( cd $d && MYTH_NUM_WORKERS=${DEMO_WORKERS:-4} timeout 300 ./demo.bin $args )
}
build_demo; run_demo > $d/demo_mut.out 2>&1; echo "CONFIRM: demo with mutation rc=$?"; tail -3 $d/demo_mut.out
git checkout -- src include; make -j8 >/dev/null 2>&1
build_demo; run_demo > $d/demo_clean.out 2>&1; echo "CONFIRM: demo on pristine rc=$?"; tail -3 $d/demo_clean.out
echo "CONFIRM: done"
