#!/bin/bash
# try_mutation.sh PATCH PROP [TIER] : apply a seeded change to /repo, run the check, undo it straight afterwards
patch=$1; prop=$2; tier=${3:-quick}
cd /repo || exit 2
if [ -n "$(git status --porcelain)" ]; then echo "/repo not clean"; exit 2; fi
git apply "$patch" || { echo "patch does not apply"; exit 2; }
cd /verif
timeout 3000 ./check $prop --tier $tier > /tmp/try_$prop.out 2>&1; rc=$?
cd /repo && git checkout -- . 
echo "== $patch on $prop ($tier): rc=$rc"
grep -E "^VIOLATION|^KNOWN|^RESULT|^CHECK-ERROR" /tmp/try_$prop.out | head -4
grep -A1 "^VIOLATION" /tmp/try_$prop.out | grep "component=" | head -2 | cut -c1-400
exit $rc
