#!/bin/bash
# try_isolated.sh PATCH PROP [TIER] : run a check against a seeded change without touching /repo or /verif's build/evidence:
#   scratch worktree of /repo with the patch + scratch copy of /verif; both removed afterwards.  Exit code = the check's.
patch=$(readlink -f "$1"); prop=$2; tier=${3:-quick}
WT=$(mktemp -d /tmp/trywt.XXXX); VC=$(mktemp -d /tmp/tryverif.XXXX)
trap 'git -C /repo worktree remove --force $WT/repo 2>/dev/null; git -C /repo worktree prune; rm -rf $WT $VC' EXIT
git -C /repo worktree add --detach $WT/repo HEAD >/dev/null 2>&1 || exit 2
[ -f /repo/src/config.h ] && cp /repo/src/config.h $WT/repo/src/
git -C $WT/repo apply "$patch" || { echo "patch does not apply"; exit 2; }
rsync -a --exclude build --exclude .git --exclude replays /verif/ $VC/; mkdir -p $VC/replays $VC/build
( cd $VC && REPO=$WT/repo timeout 4000 ./check $prop --tier $tier > $VC/out.txt 2>&1 ); rc=$?
echo "== $1 on $prop ($tier): rc=$rc"
grep -E "^VIOLATION|^KNOWN|^RESULT|^CHECK-ERROR" $VC/out.txt | head -4 | cut -c1-300
grep -A1 "^VIOLATION" $VC/out.txt | grep "component=" | head -3 | cut -c1-400
exit $rc
