#!/usr/bin/env python3
"""save_seeded.py WORKTREE SUB ID PROPERTY "needs" "detected_by" : keep a confirmed seeded change under /verif/seeded/<ID>/"""
import sys, os, shutil, json, re
wt, sub, sid, prop, needs, det = sys.argv[1:7]
src = os.path.join(wt, "mutation", sub)
dst = os.path.join("/verif/seeded", sid)
os.makedirs(dst, exist_ok=True)
for f in os.listdir(src):
    if f.endswith((".bin", ".out")) or f in ("demo",):
        continue
    p = os.path.join(src, f)
    if os.path.isfile(p) and os.path.getsize(p) < 400000:
        shutil.copy(p, os.path.join(dst, f))
log = open(os.path.join(src, "confirm.log")).read() if os.path.exists(os.path.join(src, "confirm.log")) else ""
tests = re.findall(r"# (PASS|FAIL):\s+(\d+)", log)
meta = {
    "id": sid, "property": prop, "source": "independent sub-agent given only the property text and a scratch worktree",
    "needs_to_manifest": needs,
    "confirmed": {
        "compiles": "CONFIRM: compiles" in log,
        "test_suite_with_change": dict(tests),
        "demo_with_change": (re.search(r"demo with mutation rc=(\d+)", log) or [None, None])[1],
        "demo_on_pristine": (re.search(r"demo on pristine rc=(\d+)", log) or [None, None])[1],
        "how": "tools/confirm_mutation.sh in the scratch worktree: git apply patch.diff; make; make -C tests check; demo.sh with and without the change",
    },
    "detected_by": det,
    "how_to_run": "git -C /repo apply /verif/seeded/%s/patch.diff && (cd /verif && ./check %s --tier quick); git -C /repo checkout -- ." % (sid, prop),
}
json.dump(meta, open(os.path.join(dst, "meta.json"), "w"), indent=1)
print("saved", dst)
