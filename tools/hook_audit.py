#!/usr/bin/env python3
"""hook_audit.py --stats FILE : Eraser-style audit of the E1 hook placement (guards the harness, not the library).
Builds audit variants (library compiled with -fsanitize=thread instrumentation only, callbacks recorded by
engine/mythmc/audit.c) of a few harnesses, runs them with <=1 deviation and summarises which shared accesses are
lock-protected, which sit right behind a scheduling point and which are neither.  Informational: never a violation."""
import sys, os, subprocess, json, re, collections, time
ROOT = os.path.dirname(os.path.dirname(os.path.abspath(__file__)))
os.chdir(ROOT)
stats = sys.argv[sys.argv.index("--stats") + 1] if "--stats" in sys.argv else "build/hookaudit/stats.json"
os.makedirs(os.path.dirname(stats), exist_ok=True)
t0 = time.time()
targets = [("auditc01", "harness/c01_forkjoin.c"), ("auditc04", "harness/c04_mutex.c"), ("auditc05", "harness/c05_cond.c"), ("auditc06", "harness/c06_barrier.c")]
tot = collections.Counter(); funcs = collections.Counter(); runs = 0
for name, src in targets:
    r = subprocess.run("engine/build_audit.sh %s %s" % (name, src), shell=True, stdout=subprocess.PIPE, stderr=subprocess.STDOUT, text=True)
    if r.returncode:
        print("audit build failed:", r.stdout[-2000:]); continue
    out = os.path.join(ROOT, "build", name, "audit.txt")
    if os.path.exists(out): os.unlink(out)
    subprocess.run("build/%s/%s --K 1 --jobs 8 --deadline 120 --stats build/%s/stats.json --replay-dir build/%s" % (name, name, name, name), shell=True,
                   env=dict(os.environ, MV_AUDIT_OUT=out), stdout=subprocess.DEVNULL, stderr=subprocess.DEVNULL)
    pcs = collections.Counter()
    for line in open(out) if os.path.exists(out) else []:
        m = re.match(r"AUDIT .* accesses=(\d+) shared=(\d+) lock_protected=(\d+) behind_a_point=(\d+) uncovered=(\d+)", line)
        if m:
            runs += 1
            for k, v in zip(("accesses", "shared", "lock_protected", "behind_a_point", "uncovered"), m.groups()): tot[k] += int(v)
        m = re.match(r"\s+UNCOVERED pc=(0x[0-9a-f]+) x(\d+)", line)
        if m: pcs[m.group(1)] += int(m.group(2))
    if pcs:
        r = subprocess.run(["addr2line", "-f", "-s", "-e", "build/%s/%s" % (name, name)] + list(pcs), stdout=subprocess.PIPE, text=True)
        lines = r.stdout.split("\n")
        for i, pc in enumerate(pcs):
            fn = lines[2 * i] if 2 * i < len(lines) else "?"
            funcs[fn] += pcs[pc]
res = {"component": "hookaudit", "engine": "E1 hook audit (lock-set + scheduling-point coverage of every shared access; informational)",
       "states": runs, "transitions": tot["accesses"], "evaluations": runs, "distinct_outcomes": len(funcs), "traces_validated_against_impl": runs, "exhaustive": True,
       "engine_error": False, "wall_s": round(time.time() - t0, 1),
       "detail": "executions audited: %d; instrumented accesses: %d; accesses to memory shared between workers and threads: %d, of which lock-protected: %d, right behind a scheduling point: %d, neither: %d" % (
           runs, tot["accesses"], tot["shared"], tot["lock_protected"], tot["behind_a_point"], tot["uncovered"]),
       "samples": ["unhooked+unlocked shared accesses by function (all reviewed as ownership transfers through a queue / a registered waiter, see DESIGN.md 8.6): " + ", ".join("%s x%d" % kv for kv in funcs.most_common(12))],
       "found": []}
json.dump(res, open(stats, "w"))
print("SUMMARY component=hookaudit", res["detail"])
