#!/bin/bash
# build_e2.sh NAME HARNESS.c : E2 harness = instrumented harness TU (which #includes the unit) + unitmc runtime + library objects
set -e
cd "$(dirname "$0")/.."
name=$1; src=$2; shift 2
out=build/$name
mkdir -p $out
R=${REPO:-/repo}
DEFS="-DMYTH_VERIF -DMYTH_VERIF_NO_POINTS"
EXCLUDE=${E2_EXCLUDE:-myth_if_native}
engine/build_lib.sh $out/lib -O0 -g $DEFS
for x in $EXCLUDE; do rm -f $out/lib/$x.o; done
gcc -O1 -g -w -Iengine/unitmc -c engine/unitmc/unitmc.c -o $out/unitmc.o
gcc -O0 -g -w -fsanitize=thread -D_GNU_SOURCE -D_XOPEN_SOURCE -D_DARWIN_C_SOURCE -DMYTH_WRAP=MYTH_WRAP_VANILLA $DEFS -DREPO_SRC=\"$R/src\" \
    -I$R/include -I$R/src -Iengine/fallback -Iengine/unitmc -Iengine/seqmc -Iharness ${E2_FLAGS} -c $src -o $out/harness.o
gcc -o $out/$name $out/harness.o $out/unitmc.o $out/lib/*.o -lpthread -ldl
