#!/bin/bash
# build_dag.sh : the two DAG Recorder components (C18 totals, C19 files), engine E3.
#   The recorder sources are compiled from /repo's working tree with -DMYTH_VERIF (virtual-clock seam in dr_get_tsc) and
#   without PAPI; dr_dump.c is #included by the harness unit (its converter is static), everything else is linked.
#   build/c18/c18  build/c19/c19     usage: --tier quick|thorough --stats FILE   |   --case 'KEY'
set -e
cd "$(dirname "$0")/.."
R=${REPO:-/repo}
P=${DAG_PROFILER:-$R/src/profiler}     # DAG_PROFILER=<dir>: build against a (patched) copy of the profiler sources, DAG_SUFFIX names the output
CC=${CC:-gcc}
CFLAGS=${DAG_CFLAGS:--O1 -g}
LIBSRCS="dag_recorder chronological gen_stat gen_dot gen_gpl gen_text read_dag options papi_counters"
for comp in ${DAG_COMPONENTS:-c18 c19}; do
  out=build/$comp$DAG_SUFFIX
  mkdir -p $out/lib $out/scratch
  pids=()
  for f in $LIBSRCS; do
    ( $CC $CFLAGS -c -w -D_GNU_SOURCE -DMYTH_VERIF -I$P $P/$f.c -o $out/lib/$f.o ) &
    pids+=($!)
  done
  rc=0; for p in "${pids[@]}"; do wait $p || rc=1; done; [ $rc -eq 0 ]
  $CC $CFLAGS -w -D_GNU_SOURCE -DMYTH_VERIF -I$P -Iengine/seqmc -Iharness harness/${comp}_dag.c $out/lib/*.o -o $out/$comp -lpthread
done
