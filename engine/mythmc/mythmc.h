/* mythmc.h --- E1: deviation-bounded stateless model checker over the real MassiveThreads library.
 *
 * The library is compiled with -DMYTH_VERIF and linked with mythv.c (the
 * runtime behind the hooks: token-passing scheduler, virtual clock,
 * ownership ledger) and explore.c (the explorer: one forked child per
 * execution, exhaustive enumeration of all schedules with <= K deviations).
 * A harness supplies `mc_harness`.
 */
#pragma once
#include <stdint.h>
#include <stddef.h>
#include <time.h>

#define MV_MAXW      4
#define MV_MAXDEV    6
#define MV_MAXSTEPS  24000
#define MV_OBS_SZ    2048
#define MV_REF_SZ    1024

enum { MV_OK = 0, MV_VIOLATION, MV_DEADLOCK, MV_LIVELOCK, MV_CRASH, MV_EXIT,
       MV_TIMEOUT, MV_DIVERGENCE, MV_ENGINE_ERROR, MV_N_VERDICTS };
extern const char * const mv_verdict_name[];

enum { MV_STEP_SCHED = 0, MV_STEP_VALUE = 1 };

typedef struct {
  uint16_t pid;     /* hook point id */
  uint8_t  w;       /* worker that called the hook */
  uint8_t  nalt;    /* number of alternatives at this decision */
  uint8_t  chosen;  /* index chosen (0 = default) */
  uint8_t  mask;    /* enabled-worker mask (SCHED) / n (VALUE) */
  uint8_t  kind;
  uint8_t  tgt;     /* worker that runs next / value chosen */
} mv_step_t;

typedef struct {
  int step;              /* decision index at which to deviate */
  int alt;               /* alternative to take there (>0) */
  uint64_t expect;       /* trace hash expected at that decision (determinism check) */
} mv_dev_t;

typedef struct {
  /* ---- input (set by the explorer before fork) */
  int tier, prog, nworkers;
  int ndev;
  mv_dev_t dev[MV_MAXDEV];
  int trace_to_stderr;
  /* ---- output (written by the child) */
  volatile int verdict;
  volatile int finished;       /* child reached the end of the harness */
  char msg[400];
  int nsteps;
  int ndev_used;
  uint64_t trace_hash;
  uint64_t obs_hash;
  int obs_len;
  char obs[MV_OBS_SZ];
  uint64_t cover;
  uint64_t pid_seen[4];        /* bitmap of (point id) hit under control */
  long fresh_desc, fresh_stack, reuse_desc, reuse_stack;
  uint64_t prefix_hash[MV_MAXSTEPS]; /* hash of the trace before decision i plus its static part */
  mv_step_t steps[MV_MAXSTEPS];
} mv_shared_t;

extern mv_shared_t * mv_sh;     /* valid in the child */

/* ---- harness-side API (child) */
void mv_start(int nworkers);     /* myth_init_ex(n_workers) + take control of all workers */
void mv_set_default_stacksize(size_t sz); /* optional, before mv_start: default stack size of the library */
void mv_finish(void);            /* release control (workers free-run again) */
void mv_fail(const char * fmt, ...) __attribute__((noreturn, format(printf,1,2)));
void mv_obs(const char * fmt, ...) __attribute__((format(printf,1,2)));
void mv_cover(int bit);
void mv_point(const volatile void * addr, size_t sz);      /* scheduling point before a harness-level shared access */
void mv_wait_until_changed(const volatile void * addr, size_t sz); /* wait loop helper: yields, marks waiting */
extern int mv_is_fine;     /* 1 in fine mode (every access a scheduling point): programs with thousands of steps shrink themselves */
void mv_set_clock_step(long tick_ns, long jump_ns);   /* virtual clock: default / deviation advance per read */
void mv_spin_until_changed(const volatile void * addr, size_t sz); /* wait loop helper for a thread that keeps its worker (no yield) */
void mv_quiesce(void);           /* run the other workers until none of them can make progress */
int  mv_controlled(void);
int  mv_worker(void);            /* current worker index */
long mv_now_ns(void);            /* virtual clock, ns since virtual epoch */
void mv_clock_read(struct timespec * ts); /* read the virtual clock without a decision */
long mv_steps(void);
/* clock samples: value of a watched word at every clock read of a thread, with the number of token hand-offs so far
   (switches) and at that thread's next clock read / now (next_switches): equal numbers = nobody else ran in between */
typedef struct { void * thread; long now_ns; uint64_t value; long switches, next_switches; } mv_csample_t;
void mv_watch(const volatile void * addr, size_t sz);
int mv_clock_samples(void * thread, mv_csample_t * out, int max);
/* ledger */
long mv_ledger_outstanding(int kind);   /* handed out and not yet released */
long mv_ledger_fresh(int kind);         /* distinct objects ever handed out */
volatile long * mv_ledger_out_ptr(int kind);
int mythv_desc_status(void * th);       /* 0 ready, 1 blocked, 3 finished and released by its worker */
volatile int * mythv_desc_status_ptr(void * th);
void mv_ledger_note(const char * what); /* for messages */
#define MV_CHECK(c, ...) do { if (!(c)) mv_fail(__VA_ARGS__); } while (0)

/* ---- what a harness provides */
typedef struct {
  const char * property;                 /* "C01" */
  const char * name;                     /* harness name */
  int  (*nprogs)(int tier);              /* tier: 0 quick, 1 thorough */
  void (*describe)(int tier, int prog, char * buf, size_t n);
  void (*config)(int tier, int prog, int * W, int * K);
  void (*run)(int tier, int prog);       /* runs in a forked child */
  const char * const * cover_names;      /* names of coverage bits, NULL-terminated */
  uint64_t (*cover_required)(int tier);  /* bits that must be hit over the whole run */
  /* optional (differential harnesses): produce the reference output of a program, run once per program in a
     separate process before its first controlled execution; the child reads it through mv_reference */
  void (*reference)(int tier, int prog, char * out, size_t n);
} mc_harness_t;
extern const char * mv_reference;

extern mc_harness_t mc_harness;
