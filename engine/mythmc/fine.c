/* fine.c --- "every access is a scheduling point" mode of engine E1.
 *
 * The library is compiled with -fsanitize=thread *instrumentation only*; each callback below (inserted by the
 * compiler in front of every load and store, so none can be forgotten and code added by a change is covered as
 * faithfully as the original) turns the access into a scheduling point unless it touches the stack the worker is
 * currently running on.  Atomics are points already (macro wrapper in myth_verif.h).  Used with small deviation
 * bounds: it multiplies the number of points per execution by roughly ten.
 */
#define _GNU_SOURCE
#include <stdio.h>
#include <stdlib.h>
#include <string.h>
#include <stdint.h>
#include "mythmc.h"
#define MYTH_VERIF 1
#define MYTH_VERIF_NO_POINTS 1
#include "myth_verif.h"

extern int mv_stack_range_of(const void * sp, uintptr_t * lo, uintptr_t * hi);   /* mythv.c: ledger lookup */
static __thread uintptr_t c_lo, c_hi;     /* cached range of the stack this OS thread is executing on */
int mv_fine_pause;

static inline void acc(void * addr, unsigned sz) {
  if (mv_fine_pause || !mv_controlled()) return;
  uintptr_t a = (uintptr_t)addr, sp = (uintptr_t)__builtin_frame_address(0);
  if (!(sp >= c_lo && sp < c_hi)) { if (!mv_stack_range_of((void *)sp, &c_lo, &c_hi)) { c_lo = sp - 8192; c_hi = sp + 65536; } }
  if (a >= c_lo && a < c_hi) return;           /* own stack: private */
  mythv_point(mythv_p_user + 9, addr, sz);
}
void __tsan_init(void) {}
void __tsan_func_entry(void * pc) { (void)pc; }
void __tsan_func_exit(void) {}
void __tsan_read1(void * a) { acc(a, 1); }  void __tsan_read2(void * a) { acc(a, 2); }  void __tsan_read4(void * a) { acc(a, 4); }
void __tsan_read8(void * a) { acc(a, 8); }  void __tsan_read16(void * a) { acc(a, 16); }
void __tsan_write1(void * a) { acc(a, 1); } void __tsan_write2(void * a) { acc(a, 2); } void __tsan_write4(void * a) { acc(a, 4); }
void __tsan_write8(void * a) { acc(a, 8); } void __tsan_write16(void * a) { acc(a, 16); }
void __tsan_unaligned_read2(void * a) { acc(a, 2); } void __tsan_unaligned_read4(void * a) { acc(a, 4); } void __tsan_unaligned_read8(void * a) { acc(a, 8); }
void __tsan_unaligned_write2(void * a) { acc(a, 2); } void __tsan_unaligned_write4(void * a) { acc(a, 4); } void __tsan_unaligned_write8(void * a) { acc(a, 8); }
void __tsan_vptr_update(void ** a, void * b) { (void)a; (void)b; } void __tsan_vptr_read(void ** a) { (void)a; }
void __tsan_read_range(void * a, unsigned long n) { (void)a; (void)n; } void __tsan_write_range(void * a, unsigned long n) { (void)a; (void)n; }
void * __tsan_memcpy(void * d, const void * s, unsigned long n) { return memcpy(d, s, n); }
void * __tsan_memset(void * d, int c, unsigned long n) { return memset(d, c, n); }
void * __tsan_memmove(void * d, const void * s, unsigned long n) { return memmove(d, s, n); }
#define AT(N, T) \
  int __tsan_atomic##N##_compare_exchange_strong(volatile T * a, T * c, T v, int mo, int fmo) { (void)mo; (void)fmo; return __atomic_compare_exchange_n(a, c, v, 0, __ATOMIC_SEQ_CST, __ATOMIC_SEQ_CST); } \
  int __tsan_atomic##N##_compare_exchange_weak(volatile T * a, T * c, T v, int mo, int fmo) { return __tsan_atomic##N##_compare_exchange_strong(a, c, v, mo, fmo); } \
  T __tsan_atomic##N##_compare_exchange_val(volatile T * a, T c, T v, int mo, int fmo) { (void)mo; (void)fmo; __atomic_compare_exchange_n(a, &c, v, 0, __ATOMIC_SEQ_CST, __ATOMIC_SEQ_CST); return c; } \
  T __tsan_atomic##N##_fetch_add(volatile T * a, T v, int mo) { (void)mo; return __atomic_fetch_add(a, v, __ATOMIC_SEQ_CST); } \
  T __tsan_atomic##N##_fetch_sub(volatile T * a, T v, int mo) { (void)mo; return __atomic_fetch_sub(a, v, __ATOMIC_SEQ_CST); } \
  T __tsan_atomic##N##_exchange(volatile T * a, T v, int mo) { (void)mo; return __atomic_exchange_n(a, v, __ATOMIC_SEQ_CST); } \
  T __tsan_atomic##N##_load(const volatile T * a, int mo) { (void)mo; return __atomic_load_n(a, __ATOMIC_SEQ_CST); } \
  void __tsan_atomic##N##_store(volatile T * a, T v, int mo) { (void)mo; __atomic_store_n(a, v, __ATOMIC_SEQ_CST); }
AT(8, uint8_t) AT(16, uint16_t) AT(32, uint32_t) AT(64, uint64_t)
void __tsan_atomic_thread_fence(int mo) { (void)mo; __atomic_thread_fence(__ATOMIC_SEQ_CST); }
void __tsan_atomic_signal_fence(int mo) { (void)mo; }

int mv_is_fine = 1;
