/* mythv_lib.c --- the part of the E1 runtime that needs the library's internal headers */
#include "myth/myth.h"
#include "myth_config.h"
#include "myth_thread.h"
#include "myth_worker.h"

void mythv_poison_desc(void * p) {
  struct myth_thread * th = p;
  /* a released record must not be read again: make any such read conspicuous */
  th->result = (void *)0xDEADDEAD0BADF00DUL;
  th->entry_func = (myth_func_t)0xDEAD000000000001UL;
  th->context.rsp = 0xDEAD000000000008UL;
}

int mythv_desc_status(void * p) {
  struct myth_thread * th = p;
  return (int)th->status;
}

int mythv_desc_detached(void * p) {
  struct myth_thread * th = p;
  return th->detached;
}

void * mythv_cur_thread(int rank) {
  return g_envs[rank].this_thread;
}

volatile int * mythv_desc_status_ptr(void * p) {
  struct myth_thread * th = p;
  return (volatile int *)&th->status;
}

/* which worker's run queue does this address belong to (index words or slot array)?  -1: none */
int mythv_queue_owner(const volatile void * addr, int nworkers) {
  const char * a = (const char *)addr;
  for (int r = 0; r < nworkers; r++) {
    myth_thread_queue_t q = &g_envs[r].runnable_q;
    if (a >= (const char *)q && a < (const char *)(q + 1)) return r;
    if (q->ptr && a >= (const char *)q->ptr && a < (const char *)(q->ptr + q->size)) return r;
  }
  return -1;
}

/* has this worker been told to leave its scheduling loop? */
int mythv_exit_requested(int rank) { return g_envs[rank].exit_flag == 1; }   /* -1 marks worker 0 of myth_init_ex, 0 the others: only 1 is a request */
