/* audit.c --- hook audit for engine E1 (guards the harness, not the library).
 *
 * The library is compiled once more with -fsanitize=thread *instrumentation only*; the callbacks below record
 * every load and store executed under schedule control, together with the user-level thread that made it,
 * the atomic block it fell into (number of scheduling decisions so far) and the spin locks the worker held.
 * At the end of the run an Eraser-style pass reports every access to memory that
 *    - is touched by two different user-level threads (or a thread and a scheduler), at least once written,
 *    - is not consistently protected by one spin lock (empty lock-set intersection), and
 *    - is not the first such access of its atomic block (i.e. has no scheduling point right in front of it).
 * Such an access can race with another worker in a way the explorer never sees.  The list is written to
 * $MV_AUDIT_OUT as text; it is informational evidence about the trusted base (hook placement).
 */
#define _GNU_SOURCE
#include <stdio.h>
#include <stdlib.h>
#include <string.h>
#include <stdint.h>
#include <dlfcn.h>
#include "mythmc.h"

extern void * mythv_cur_thread(int rank);

#define MAXACC (1 << 22)
#define MAXLOCK 6
typedef struct { uintptr_t g; void * pc; void * th; uint32_t block; uint8_t w, write; uint16_t nlocks; uintptr_t locks[MAXLOCK]; } acc_t;
static acc_t * ACC; static long nacc; static int overflow;
static uintptr_t held[MV_MAXW][MAXLOCK]; static int nheld[MV_MAXW];
static int active;

int mv_audit_pause;   /* set by the runtime while it evaluates enabledness (it reads library state itself) */
static void rec(void * addr, int write, void * pc) {
  if (!active || mv_audit_pause || !mv_controlled()) return;
  int w = mv_worker(); if (w < 0) return;
  /* the runtime's own frames and the current C stack frame region are thread-private: skip the hot case cheaply */
  uintptr_t a = (uintptr_t)addr, sp = (uintptr_t)__builtin_frame_address(0);
  if (a >= sp && a < sp + 4096) return;
  if (nacc >= MAXACC) { overflow = 1; return; }
  acc_t * x = &ACC[nacc++];
  x->g = a >> 2; x->pc = pc; x->w = (uint8_t)w; x->write = (uint8_t)write; x->block = (uint32_t)mv_steps();
  void * th = mythv_cur_thread(w); x->th = th ? th : (void *)(uintptr_t)(0x1000 + w);   /* scheduler context of worker w */
  x->nlocks = (uint16_t)nheld[w]; memcpy(x->locks, held[w], sizeof(uintptr_t) * nheld[w]);
}
static void rec8(void * addr, int write, void * pc) { rec(addr, write, pc); }

void __tsan_init(void) {}
void __tsan_func_entry(void * pc) { (void)pc; }
void __tsan_func_exit(void) {}
#define RA __builtin_return_address(0)
void __tsan_read1(void * a) { rec(a, 0, RA); }  void __tsan_read2(void * a) { rec(a, 0, RA); }
void __tsan_read4(void * a) { rec(a, 0, RA); }  void __tsan_read8(void * a) { rec(a, 0, RA); }
void __tsan_read16(void * a) { rec(a, 0, RA); }
void __tsan_write1(void * a) { rec(a, 1, RA); } void __tsan_write2(void * a) { rec(a, 1, RA); }
void __tsan_write8(void * a) { rec(a, 1, RA); } void __tsan_write16(void * a) { rec(a, 1, RA); }
void __tsan_write4(void * a) {
  /* a 4-byte store of 0 into a word this worker holds as a spin lock is the unlock */
  int w = mv_worker();
  if (active && w >= 0) for (int i = 0; i < nheld[w]; i++) if (held[w][i] == (uintptr_t)a) { memmove(&held[w][i], &held[w][i + 1], sizeof(uintptr_t) * (nheld[w] - i - 1)); nheld[w]--; return; }
  rec(a, 1, RA);
}
void __tsan_unaligned_read2(void * a) { rec(a, 0, RA); } void __tsan_unaligned_read4(void * a) { rec(a, 0, RA); } void __tsan_unaligned_read8(void * a) { rec(a, 0, RA); }
void __tsan_unaligned_write2(void * a) { rec(a, 1, RA); } void __tsan_unaligned_write4(void * a) { rec(a, 1, RA); } void __tsan_unaligned_write8(void * a) { rec(a, 1, RA); }
void __tsan_vptr_update(void ** a, void * b) { (void)a; (void)b; } void __tsan_vptr_read(void ** a) { (void)a; }
void __tsan_read_range(void * a, unsigned long n) { (void)a; (void)n; } void __tsan_write_range(void * a, unsigned long n) { (void)a; (void)n; }
void * __tsan_memcpy(void * d, const void * s, unsigned long n) { return memcpy(d, s, n); }
void * __tsan_memset(void * d, int c, unsigned long n) { return memset(d, c, n); }
void * __tsan_memmove(void * d, const void * s, unsigned long n) { return memmove(d, s, n); }

/* atomics are always preceded by a scheduling point (macro wrapper in myth_verif.h): not recorded as plain accesses,
   but a successful 0 -> 1 exchange of a 4-byte word is taken as a spin-lock acquisition */
#define AT(N, T) \
  int __tsan_atomic##N##_compare_exchange_strong(volatile T * a, T * c, T v, int mo, int fmo) { (void)mo; (void)fmo; \
    int ok = __atomic_compare_exchange_n(a, c, v, 0, __ATOMIC_SEQ_CST, __ATOMIC_SEQ_CST); \
    if (ok && N == 32 && *c == 0 && v == 1 && active) { int w = mv_worker(); if (w >= 0 && nheld[w] < MAXLOCK) held[w][nheld[w]++] = (uintptr_t)a; } return ok; } \
  int __tsan_atomic##N##_compare_exchange_weak(volatile T * a, T * c, T v, int mo, int fmo) { return __tsan_atomic##N##_compare_exchange_strong(a, c, v, mo, fmo); } \
  T __tsan_atomic##N##_compare_exchange_val(volatile T * a, T c, T v, int mo, int fmo) { (void)mo; (void)fmo; __atomic_compare_exchange_n(a, &c, v, 0, __ATOMIC_SEQ_CST, __ATOMIC_SEQ_CST); return c; } \
  T __tsan_atomic##N##_fetch_add(volatile T * a, T v, int mo) { (void)mo; return __atomic_fetch_add(a, v, __ATOMIC_SEQ_CST); } \
  T __tsan_atomic##N##_fetch_sub(volatile T * a, T v, int mo) { (void)mo; return __atomic_fetch_sub(a, v, __ATOMIC_SEQ_CST); } \
  T __tsan_atomic##N##_exchange(volatile T * a, T v, int mo) { (void)mo; return __atomic_exchange_n(a, v, __ATOMIC_SEQ_CST); } \
  T __tsan_atomic##N##_load(const volatile T * a, int mo) { (void)mo; return __atomic_load_n(a, __ATOMIC_SEQ_CST); } \
  void __tsan_atomic##N##_store(volatile T * a, T v, int mo) { (void)mo; __atomic_store_n(a, v, __ATOMIC_SEQ_CST); }
AT(8, uint8_t) AT(16, uint16_t) AT(32, uint32_t) AT(64, uint64_t)
void __tsan_atomic_thread_fence(int mo) { (void)mo; __atomic_thread_fence(__ATOMIC_SEQ_CST); }
void __tsan_atomic_signal_fence(int mo) { (void)mo; }

/* released objects are forgotten: a recycled stack or record is not "shared" with its previous owner */
static struct { uintptr_t lo, hi; long at; } forgot[4096]; static int nforgot;
void mv_audit_forget(void * lo, void * hi) { if (active && nforgot < 4096) { forgot[nforgot].lo = (uintptr_t)lo >> 2; forgot[nforgot].hi = (uintptr_t)hi >> 2; forgot[nforgot].at = nacc; nforgot++; } }

void mv_audit_begin(void) { if (!ACC) ACC = malloc(sizeof(acc_t) * MAXACC); nacc = 0; nforgot = 0; memset(nheld, 0, sizeof nheld); active = ACC != NULL; }

typedef struct { uintptr_t g; void * th0; int w0, multi_th, multi_w, multi, written, wr_w, wr_multi, nl, init; uintptr_t ls[MAXLOCK]; } gran_t;
#define GT (1 << 20)
static gran_t * G;
static gran_t * gfind(uintptr_t g) {
  uint64_t i = (g * 0x9E3779B97F4A7C15ULL) >> 44;
  for (;; i = (i + 1) & (GT - 1)) { if (!G[i].g) { G[i].g = g; return &G[i]; } if (G[i].g == g) return &G[i]; }
}
static gran_t * gfind_noinsert(uintptr_t g) {
  uint64_t i = (g * 0x9E3779B97F4A7C15ULL) >> 44;
  for (;; i = (i + 1) & (GT - 1)) { if (!G[i].g) return NULL; if (G[i].g == g) return &G[i]; }
}
static int cmp_pc(const void * a, const void * b) { uintptr_t x = *(const uintptr_t *)a, y = *(const uintptr_t *)b; return x < y ? -1 : x > y; }

void mv_audit_end(const char * what) {
  if (!active) return; active = 0;
  const char * out = getenv("MV_AUDIT_OUT"); if (!out) return;
  G = calloc(GT, sizeof(gran_t)); if (!G) return;
  /* epochs: an access made before the object was released must not be merged with accesses after it */
  int fi = 0;
  for (long i = 0; i < nacc; i++) {
    while (fi < nforgot && forgot[fi].at <= i) { for (uintptr_t g = forgot[fi].lo; g < forgot[fi].hi; g++) { gran_t * e = gfind_noinsert(g); if (e) { e->init = 0; e->multi = 0; e->multi_th = e->multi_w = 0; e->written = 0; e->wr_multi = 0; } } fi++; }
    acc_t * x = &ACC[i]; gran_t * e = gfind(x->g);
    if (!e->init) { e->init = 1; e->th0 = x->th; e->w0 = x->w; e->multi_th = e->multi_w = 0; e->nl = x->nlocks; memcpy(e->ls, x->locks, sizeof(uintptr_t) * x->nlocks); }
    else {
      /* shared = touched by two user-level threads AND from two workers: worker-local structures (one worker, many
         threads) and a migrating thread's own stack (one thread, many workers) are not */
      if (e->th0 != x->th) e->multi_th = 1;
      if (e->w0 != x->w) e->multi_w = 1;
      e->multi = e->multi_th && e->multi_w;
      int k = 0; for (int a = 0; a < e->nl; a++) for (int b = 0; b < x->nlocks; b++) if (e->ls[a] == x->locks[b]) { e->ls[k++] = e->ls[a]; break; }
      e->nl = k;
    }
    if (x->write) { if (!e->written) { e->written = 1; e->wr_w = x->w; } else if (e->wr_w != x->w) e->wr_multi = 1; }
  }
  /* second pass: within each atomic block of a worker, every access after the first one to shared, unprotected memory */
  static uintptr_t bad[65536]; int nbad = 0; long shared_acc = 0, covered = 0, locked = 0;
  uint32_t cur_block = (uint32_t)-1; int cur_w = -1, seen_shared = 0;
  for (long i = 0; i < nacc; i++) {
    acc_t * x = &ACC[i];
    if (x->block != cur_block || x->w != cur_w) { cur_block = x->block; cur_w = x->w; seen_shared = 0; }
    gran_t * e = gfind(x->g);
    if (!(e->multi && e->written)) continue;
    /* a read by the only worker that ever writes the word cannot race */
    if (!x->write && !e->wr_multi && e->wr_w == x->w) continue;
    shared_acc++;
    if (e->nl > 0) { locked++; continue; }
    if (!seen_shared) { seen_shared = 1; covered++; continue; }
    if (nbad < 65536) bad[nbad++] = (uintptr_t)x->pc;
  }
  qsort(bad, nbad, sizeof(uintptr_t), cmp_pc);
  FILE * f = fopen(out, "a"); if (!f) return;
  fprintf(f, "AUDIT %s accesses=%ld shared=%ld lock_protected=%ld behind_a_point=%ld uncovered=%d overflow=%d\n", what, nacc, shared_acc, locked, covered, nbad, overflow);
  for (int i = 0; i < nbad; ) { int j = i; while (j < nbad && bad[j] == bad[i]) j++; fprintf(f, "  UNCOVERED pc=%#lx x%d\n", (unsigned long)bad[i], j - i); i = j; }
  fclose(f); free(G); G = NULL;
}
