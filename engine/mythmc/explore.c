/* explore.c --- E1 explorer: exhaustive enumeration of all schedules with <= K deviations.
 *
 * usage: harness [--tier quick|thorough] [--jobs N] [--deadline SEC] [--stats FILE]
 *                [--replay-dir DIR] [--prog P] [--K k] [--W w] [--seed S]
 *        harness --replay FILE [--trace]
 *
 * One execution = one forked child.  Jobs (schedules still to run whose
 * children have to be enumerated) are kept per depth in shared memory; J
 * explorer processes take the shallowest job first, so when a deadline
 * stops the run, the completed deviation bound is known exactly.
 */
#define _GNU_SOURCE
#include <stdio.h>
#include <stdlib.h>
#include <string.h>
#include <unistd.h>
#include <signal.h>
#include <errno.h>
#include <time.h>
#include <fcntl.h>
#include <sched.h>
#include <sys/mman.h>
#include <sys/wait.h>
#include <sys/resource.h>
#include <sys/syscall.h>
#include "mythmc.h"

#define MAXPROG   4096
#define POOL      (1 << 18)
#define MAXVIOL   64
#define OUTTAB    (1 << 16)

/* expand = 1: the schedule itself has been run and accounted; this job (queued one level deeper, so that it is taken only after every
   schedule of its own depth has run) re-executes it to get the trace and runs its children */
typedef struct { int prog, ndev, next, expand; mv_dev_t dev[MV_MAXDEV]; } job_t;

typedef struct {
  int prog, verdict, ndev, nsteps, confirmed;
  mv_dev_t dev[MV_MAXDEV];
  uint64_t trace_hash;
  char msg[400];
  char obs[256];
} viol_t;

typedef struct {
  volatile int lock;
  int free_head;
  int head[MV_MAXDEV + 1], tail[MV_MAXDEV + 1];
  long queued[MV_MAXDEV + 1];
  long inflight;
  long pool_used;
  int stop;                 /* deadline hit */
  int engine_error;
  /* statistics */
  long runs, steps, runs_at_depth[MV_MAXDEV + 1];
  long verdicts[MV_N_VERDICTS];
  long max_steps;
  uint64_t cover, pid_seen[4];
  long fresh_desc_max, fresh_stack_max;
  int nviol;
  viol_t viol[MAXVIOL];
  uint8_t prog_failed[MAXPROG];
  int prog_K[MAXPROG], prog_W[MAXPROG];
  long prog_runs[MAXPROG];
  uint8_t prog_done_depth_incomplete[MAXPROG];
  int incomplete_depth[MV_MAXDEV + 2];     /* some schedule with that many deviations was not run */
  long nout;
  uint64_t outtab[OUTTAB];
  long pending_at_depth[MV_MAXDEV + 1];   /* jobs queued or running, per depth */
  volatile uint8_t ref_ready[MAXPROG];     /* reference output of the program computed (differential harnesses) */
  char ref[MAXPROG][MV_REF_SZ];
  char sample_obs[4][256];
  int nsample;
  job_t pool[POOL];
} ctl_t;

static ctl_t * C;
static int g_tier = 0, g_jobs = 16, g_trace = 0;
static double g_deadline = 1e9, g_t0;
static int g_Kover = -1, g_Wover = -1, g_only_prog = -1;
static unsigned g_seed = 0;
static double g_run_timeout = 10.0;

static double now(void) { struct timespec ts; clock_gettime(CLOCK_MONOTONIC, &ts); return ts.tv_sec + ts.tv_nsec * 1e-9; }

static void lock(void) { while (__atomic_exchange_n(&C->lock, 1, __ATOMIC_ACQUIRE)) syscall(SYS_sched_yield); }
static void unlock(void) { __atomic_store_n(&C->lock, 0, __ATOMIC_RELEASE); }

/* ------------------------------------------------------------------ one execution */
const char * mv_reference;   /* valid in the child: reference output of the current program */
static void ensure_reference(int prog) {
  if (!mc_harness.reference || !C || C->ref_ready[prog]) return;
  pid_t pid = fork();
  if (pid == 0) {
    int fd = open("/dev/null", O_WRONLY); if (fd >= 0) { dup2(fd, 2); dup2(fd, 1); close(fd); }
    mc_harness.reference(g_tier, prog, C->ref[prog], MV_REF_SZ);
    _exit(0);
  }
  int st; waitpid(pid, &st, 0);
  if (!WIFEXITED(st) || WEXITSTATUS(st)) snprintf(C->ref[prog], MV_REF_SZ, "(reference run failed: status %x)", st);
  C->ref_ready[prog] = 1;
}

static int execute(mv_shared_t * sh, int prog, int W, int ndev, const mv_dev_t * dev, double timeout, int trace) {
  ensure_reference(prog);
  /* reset header (not the big arrays) */
  memset(sh, 0, offsetof(mv_shared_t, prefix_hash));
  sh->tier = g_tier; sh->prog = prog; sh->nworkers = W; sh->ndev = ndev;
  for (int i = 0; i < ndev; i++) sh->dev[i] = dev[i];
  sh->trace_to_stderr = trace;
  sh->verdict = MV_ENGINE_ERROR;
  sigset_t ss; sigemptyset(&ss); sigaddset(&ss, SIGCHLD);
  /* drain stale SIGCHLD */
  { struct timespec z = {0, 0}; while (sigtimedwait(&ss, NULL, &z) > 0) {} }
  pid_t pid = fork();
  if (pid < 0) { perror("fork"); return MV_ENGINE_ERROR; }
  if (pid == 0) {
    sigset_t e; sigemptyset(&e); sigprocmask(SIG_SETMASK, &e, NULL);
    if (!trace) { int fd = open("/dev/null", O_WRONLY); if (fd >= 0) { dup2(fd, 2); dup2(fd, 1); close(fd); } }
    /* a hang is judged by CPU time (a native spin outside the hooked wait loops burns it); the wall-clock
       limit is 12x larger and only catches a child that blocks for real, so an overloaded machine cannot
       turn a slow execution into a false "hang" */
    struct rlimit rl = { (rlim_t)(timeout), (rlim_t)(timeout + 1) }; setrlimit(RLIMIT_CPU, &rl);
    struct rlimit core = {0, 0}; setrlimit(RLIMIT_CORE, &core);
    mv_sh = sh;
    mv_reference = C ? C->ref[prog] : NULL;
    mc_harness.run(g_tier, prog);
    sh->finished = 1;
    sh->verdict = MV_OK;
    _exit(0);
  }
  int status = 0, got = 0;
  double tend = now() + timeout * 12;
  while (!got) {
    pid_t r = waitpid(pid, &status, WNOHANG);
    if (r == pid) { got = 1; break; }
    double left = tend - now();
    if (left <= 0) break;
    struct timespec ts = { (time_t)left, (long)((left - (time_t)left) * 1e9) };
    if (ts.tv_sec > 0) { ts.tv_sec = 0; ts.tv_nsec = 500000000; }
    sigtimedwait(&ss, NULL, &ts);
  }
  if (!got) {
    kill(pid, SIGKILL); waitpid(pid, &status, 0);
    sh->verdict = MV_TIMEOUT;
    snprintf(sh->msg, sizeof sh->msg, "execution did not finish within %.0f s of wall-clock time (a worker blocks for real)", timeout * 12);
    return MV_TIMEOUT;
  }
  if (WIFEXITED(status)) {
    int code = WEXITSTATUS(status);
    if (code == 0 && sh->finished) { sh->verdict = MV_OK; return MV_OK; }
    if (code >= 100 && code < 100 + MV_N_VERDICTS && sh->verdict == code - 100) return sh->verdict;
    sh->verdict = MV_EXIT;
    snprintf(sh->msg, sizeof sh->msg, "process exited with status %d inside the library (fatal diagnostic)", code);
    return MV_EXIT;
  }
  if (WIFSIGNALED(status) && (WTERMSIG(status) == SIGXCPU || WTERMSIG(status) == SIGKILL)) {
    sh->verdict = MV_TIMEOUT;
    snprintf(sh->msg, sizeof sh->msg, "execution burned %.0f s of CPU without finishing (a worker spins outside the hooked wait loops)", timeout);
    return MV_TIMEOUT;
  }
  if (WIFSIGNALED(status)) {
    sh->verdict = MV_CRASH;
    snprintf(sh->msg, sizeof sh->msg, "process killed by signal %d (%s)", WTERMSIG(status), strsignal(WTERMSIG(status)));
    return MV_CRASH;
  }
  return MV_ENGINE_ERROR;
}

/* ------------------------------------------------------------------ bookkeeping */
static void out_insert(uint64_t h) {
  if (!h) h = 1;
  uint64_t i = h & (OUTTAB - 1);
  for (int k = 0; k < OUTTAB; k++, i = (i + 1) & (OUTTAB - 1)) {
    if (C->outtab[i] == h) return;
    if (C->outtab[i] == 0) { C->outtab[i] = h; C->nout++; return; }
  }
}

static void write_replay(const char * dir, const viol_t * v, int idx, char * path, size_t n);

static void account(mv_shared_t * sh, int prog, int depth, int ndev, const mv_dev_t * dev) {
  lock();
  C->runs++; C->steps += sh->nsteps; C->runs_at_depth[depth]++;
  C->prog_runs[prog]++;
  if (sh->nsteps > C->max_steps) C->max_steps = sh->nsteps;
  C->verdicts[sh->verdict]++;
  C->cover |= sh->cover;
  for (int i = 0; i < 4; i++) C->pid_seen[i] |= sh->pid_seen[i];
  if (sh->fresh_desc > C->fresh_desc_max) C->fresh_desc_max = sh->fresh_desc;
  if (sh->fresh_stack > C->fresh_stack_max) C->fresh_stack_max = sh->fresh_stack;
  uint64_t oh = sh->obs_hash * 31 + sh->verdict + ((uint64_t)prog << 48);
  long before = C->nout;
  out_insert(oh);
  if (C->nout != before && C->nsample < 4) {
    snprintf(C->sample_obs[C->nsample++], 256, "prog %d: %s", prog, sh->obs);
  }
  unlock();
  (void)ndev; (void)dev;
}

static void report_violation(mv_shared_t * sh, int prog, int W, int ndev, const mv_dev_t * dev) {
  /* replay twice: identical trace and verdict, otherwise it is an engine problem, not a finding */
  int v0 = sh->verdict; uint64_t h0 = sh->trace_hash; int n0 = sh->nsteps;
  char msg0[400]; strncpy(msg0, sh->msg, sizeof msg0); msg0[399] = 0;
  char obs0[256]; strncpy(obs0, sh->obs, sizeof obs0); obs0[255] = 0;
  int confirmed = 1;
  double to = (v0 == MV_TIMEOUT) ? g_run_timeout * 10 : g_run_timeout;
  if (v0 == MV_TIMEOUT) {
    /* a timed-out run is re-run alone with a 10x limit before it is called a hang */
    execute(sh, prog, W, ndev, dev, to, 0);
    if (sh->verdict == MV_OK) return;  /* slow, not hung */
    v0 = sh->verdict; h0 = sh->trace_hash; n0 = sh->nsteps; strncpy(msg0, sh->msg, sizeof msg0); msg0[399] = 0;
  }
  for (int r = 0; r < 2; r++) {
    execute(sh, prog, W, ndev, dev, to, 0);
    if (sh->verdict != v0 || (v0 != MV_TIMEOUT && v0 != MV_CRASH && v0 != MV_EXIT && sh->trace_hash != h0)) confirmed = 0;
    if ((v0 == MV_CRASH || v0 == MV_EXIT) && sh->nsteps != n0) confirmed = 0;
  }
  lock();
  if (!confirmed || v0 == MV_DIVERGENCE || v0 == MV_ENGINE_ERROR) C->engine_error = 1;
  if (C->nviol < MAXVIOL) {
    viol_t * v = &C->viol[C->nviol++];
    v->prog = prog; v->verdict = v0; v->ndev = ndev; v->nsteps = n0; v->confirmed = confirmed; v->trace_hash = h0;
    for (int i = 0; i < ndev; i++) v->dev[i] = dev[i];
    strncpy(v->msg, msg0, sizeof v->msg - 1);
    strncpy(v->obs, obs0, sizeof v->obs - 1);
  }
  C->prog_failed[prog] = 1;
  unlock();
}

static void push_job_(int prog, int ndev, const mv_dev_t * dev, int expand) {
  int lvl = ndev + expand;
  lock();
  int j = C->free_head;
  if (j >= 0) { C->free_head = C->pool[j].next; }
  else if (C->pool_used < POOL) { j = C->pool_used++; }
  else { C->stop = 2; C->incomplete_depth[lvl] = 1; unlock(); return; }
  job_t * jb = &C->pool[j];
  jb->prog = prog; jb->ndev = ndev; jb->next = -1; jb->expand = expand;
  for (int i = 0; i < ndev; i++) jb->dev[i] = dev[i];
  if (C->tail[lvl] >= 0) C->pool[C->tail[lvl]].next = j; else C->head[lvl] = j;
  C->tail[lvl] = j; C->queued[lvl]++; C->pending_at_depth[lvl]++;
  unlock();
}
static void push_job(int prog, int ndev, const mv_dev_t * dev) { push_job_(prog, ndev, dev, 0); }

static int pop_job(job_t * out) {
  lock();
  for (int d = 0; d <= MV_MAXDEV; d++) {
    while (C->head[d] >= 0) {
      int j = C->head[d];
      C->head[d] = C->pool[j].next; if (C->head[d] < 0) C->tail[d] = -1;
      C->queued[d]--;
      *out = C->pool[j];
      C->pool[j].next = C->free_head; C->free_head = j;
      if (C->prog_failed[out->prog] || C->stop) {
	C->pending_at_depth[d]--;
	if (C->stop && !C->prog_failed[out->prog]) { C->prog_done_depth_incomplete[out->prog] = 1; C->incomplete_depth[d] = 1; }
	continue;
      }
      C->inflight++;
      unlock();
      return 1;
    }
  }
  int done = (C->inflight == 0);
  unlock();
  return done ? -1 : 0;
}

static mv_step_t * g_steps_copy;
static uint64_t * g_hash_copy;

static void run_job(mv_shared_t * sh, const job_t * jb) {
  int prog = jb->prog, K = C->prog_K[prog], W = C->prog_W[prog];
  int depth = jb->ndev;
  execute(sh, prog, W, jb->ndev, jb->dev, g_run_timeout, 0);
  if (!jb->expand) {
    account(sh, prog, depth, jb->ndev, jb->dev);
    if (sh->verdict != MV_OK) { report_violation(sh, prog, W, jb->ndev, jb->dev); return; }
    if (depth >= K) return;
    /* the children of a schedule of the last-but-one depth are run inside one job; keep the order shallowest-first (and the completed
       bound exact under a deadline) by doing that only after every schedule of this depth has run */
    if (depth >= 1 && depth + 1 == K) { push_job_(prog, depth, jb->dev, 1); return; }
  } else if (sh->verdict != MV_OK) {
    /* the same schedule passed a moment ago: allow for a slow machine once, then treat it like any failing schedule (replayed twice) */
    execute(sh, prog, W, jb->ndev, jb->dev, g_run_timeout * 10, 0);
    if (sh->verdict != MV_OK) { report_violation(sh, prog, W, jb->ndev, jb->dev); return; }
  }
  int n = sh->nsteps;
  memcpy(g_steps_copy, sh->steps, n * sizeof(mv_step_t));
  memcpy(g_hash_copy, sh->prefix_hash, n * sizeof(uint64_t));
  int first = depth ? jb->dev[depth - 1].step + 1 : 0;
  mv_dev_t dev[MV_MAXDEV];
  for (int i = 0; i < depth; i++) dev[i] = jb->dev[i];
  /* visit order of the frontier may be shuffled by the seed; the set is always complete */
  int stride = 1, off = 0, cnt = n - first;
  if (g_seed && cnt > 1) { off = g_seed % cnt; }
  for (int t = 0; t < cnt; t++) {
    int j = first + (t * stride + off) % cnt;
    for (int a = 1; a < g_steps_copy[j].nalt; a++) {
      if (C->prog_failed[prog]) return;
      if (C->stop || now() - g_t0 > g_deadline) { lock(); if (!C->stop) C->stop = 1; C->prog_done_depth_incomplete[prog] = 1; C->incomplete_depth[depth + 1] = 1; unlock(); return; }
      dev[depth].step = j; dev[depth].alt = a; dev[depth].expect = g_hash_copy[j];
      if (depth + 1 < K) { push_job(prog, depth + 1, dev); }
      else {
	execute(sh, prog, W, depth + 1, dev, g_run_timeout, 0);
	account(sh, prog, depth + 1, depth + 1, dev);
	if (sh->verdict != MV_OK) { report_violation(sh, prog, W, depth + 1, dev); }
      }
    }
  }
}

static void explorer_proc(int id) {
  (void)id;
  mv_shared_t * sh = mmap(NULL, sizeof(mv_shared_t), PROT_READ | PROT_WRITE, MAP_SHARED | MAP_ANONYMOUS, -1, 0);
  g_steps_copy = malloc(sizeof(mv_step_t) * MV_MAXSTEPS);
  g_hash_copy = malloc(sizeof(uint64_t) * MV_MAXSTEPS);
  sigset_t ss; sigemptyset(&ss); sigaddset(&ss, SIGCHLD); sigprocmask(SIG_BLOCK, &ss, NULL);
  job_t jb;
  for (;;) {
    int r = pop_job(&jb);
    if (r < 0) break;
    if (r == 0) { { struct timespec ts_ = {0, 300000}; syscall(SYS_nanosleep, &ts_, NULL); }; continue; }
    run_job(sh, &jb);
    lock(); C->inflight--; C->pending_at_depth[jb.ndev + jb.expand]--; unlock();
  }
  _exit(0);
}

/* ------------------------------------------------------------------ replay files */
static void json_escape(FILE * f, const char * s) {
  for (; *s; s++) {
    if (*s == '"' || *s == '\\') fprintf(f, "\\%c", *s);
    else if ((unsigned char)*s < 32) fprintf(f, " ");
    else fputc(*s, f);
  }
}

static void write_replay(const char * dir, const viol_t * v, int idx, char * path, size_t n) {
  char desc[256] = ""; mc_harness.describe(g_tier, v->prog, desc, sizeof desc);
  snprintf(path, n, "%s/%s-%s-%d.json", dir, mc_harness.property, mc_harness.name, idx);
  FILE * f = fopen(path, "w");
  if (!f) return;
  fprintf(f, "{\"property\":\"%s\",\"harness\":\"%s\",\"tier\":%d,\"prog\":%d,\"program\":\"", mc_harness.property, mc_harness.name, g_tier, v->prog);
  json_escape(f, desc);
  fprintf(f, "\",\"workers\":%d,\"verdict\":\"%s\",\"confirmed_by_two_replays\":%s,\"message\":\"", C->prog_W[v->prog], mv_verdict_name[v->verdict], v->confirmed ? "true" : "false");
  json_escape(f, v->msg);
  fprintf(f, "\",\"observations\":\""); json_escape(f, v->obs);
  fprintf(f, "\",\"steps\":%d,\"deviations\":[", v->nsteps);
  for (int i = 0; i < v->ndev; i++) fprintf(f, "%s{\"step\":%d,\"alt\":%d,\"expect\":\"%llx\"}", i ? "," : "", v->dev[i].step, v->dev[i].alt, (unsigned long long)v->dev[i].expect);
  fprintf(f, "]}\n");
  fclose(f);
}

static int parse_replay(const char * path, int * tier, int * prog, int * W, int * ndev, mv_dev_t * dev) {
  FILE * f = fopen(path, "r"); if (!f) { perror(path); return -1; }
  static char buf[1 << 16]; size_t n = fread(buf, 1, sizeof buf - 1, f); buf[n] = 0; fclose(f);
  char * p;
  if (!(p = strstr(buf, "\"tier\":"))) return -1; *tier = atoi(p + 7);
  if (!(p = strstr(buf, "\"prog\":"))) return -1; *prog = atoi(p + 7);
  if (!(p = strstr(buf, "\"workers\":"))) return -1; *W = atoi(p + 10);
  *ndev = 0;
  p = strstr(buf, "\"deviations\":[");
  while (p && (p = strstr(p, "{\"step\":")) && *ndev < MV_MAXDEV) {
    dev[*ndev].step = atoi(p + 8);
    char * q = strstr(p, "\"alt\":"); dev[*ndev].alt = atoi(q + 6);
    q = strstr(p, "\"expect\":\""); dev[*ndev].expect = strtoull(q + 10, NULL, 16);
    (*ndev)++; p = q;
  }
  return 0;
}

/* ------------------------------------------------------------------ main */
int main(int argc, char ** argv) {
  const char * stats = NULL, * replay = NULL, * replay_dir = "replays";
  for (int i = 1; i < argc; i++) {
    if (!strcmp(argv[i], "--tier") && i + 1 < argc) g_tier = !strcmp(argv[++i], "thorough");
    else if (!strcmp(argv[i], "--jobs") && i + 1 < argc) g_jobs = atoi(argv[++i]);
    else if (!strcmp(argv[i], "--deadline") && i + 1 < argc) g_deadline = atof(argv[++i]);
    else if (!strcmp(argv[i], "--stats") && i + 1 < argc) stats = argv[++i];
    else if (!strcmp(argv[i], "--replay") && i + 1 < argc) replay = argv[++i];
    else if (!strcmp(argv[i], "--replay-dir") && i + 1 < argc) replay_dir = argv[++i];
    else if (!strcmp(argv[i], "--trace")) g_trace = 1;
    else if (!strcmp(argv[i], "--K") && i + 1 < argc) g_Kover = atoi(argv[++i]);
    else if (!strcmp(argv[i], "--W") && i + 1 < argc) g_Wover = atoi(argv[++i]);
    else if (!strcmp(argv[i], "--prog") && i + 1 < argc) g_only_prog = atoi(argv[++i]);
    else if (!strcmp(argv[i], "--seed") && i + 1 < argc) g_seed = (unsigned)strtoul(argv[++i], NULL, 10);
    else if (!strcmp(argv[i], "--timeout") && i + 1 < argc) g_run_timeout = atof(argv[++i]);
    else if (!strcmp(argv[i], "--reference") && i + 1 < argc) {
      static char b[MV_REF_SZ]; int p = atoi(argv[++i]);
      if (mc_harness.reference) mc_harness.reference(g_tier, p, b, sizeof b);
      printf("reference[%d] = %s\n", p, b); return 0;
    }
    else if (!strcmp(argv[i], "--list")) {
      int n = mc_harness.nprogs(g_tier);
      for (int p = 0; p < n; p++) { char d[256] = ""; int W, K; mc_harness.describe(g_tier, p, d, sizeof d); mc_harness.config(g_tier, p, &W, &K); printf("%d W=%d K=%d %s\n", p, W, K, d); }
      return 0;
    }
    else { fprintf(stderr, "unknown argument %s\n", argv[i]); return 2; }
  }
  g_t0 = now();
  sigset_t ss; sigemptyset(&ss); sigaddset(&ss, SIGCHLD); sigprocmask(SIG_BLOCK, &ss, NULL);

  C = mmap(NULL, sizeof(ctl_t), PROT_READ | PROT_WRITE, MAP_SHARED | MAP_ANONYMOUS | MAP_NORESERVE, -1, 0);
  if (C == MAP_FAILED) { perror("mmap"); return 2; }
  if (replay) {
    int tier, prog, W, ndev; mv_dev_t dev[MV_MAXDEV];
    if (parse_replay(replay, &tier, &prog, &W, &ndev, dev)) { fprintf(stderr, "cannot parse %s\n", replay); return 2; }
    g_tier = tier;
    mv_shared_t * sh = mmap(NULL, sizeof(mv_shared_t), PROT_READ | PROT_WRITE, MAP_SHARED | MAP_ANONYMOUS, -1, 0);
    char d[256] = ""; mc_harness.describe(g_tier, prog, d, sizeof d);
    execute(sh, prog, W, ndev, dev, g_run_timeout * 10, g_trace);
    printf("replay %s: program %d (%s) W=%d deviations=%d -> verdict=%s steps=%d %s\nobservations: %s\n", replay, prog, d, W, ndev,
	   mv_verdict_name[sh->verdict], sh->nsteps, sh->msg, sh->obs);
    return sh->verdict == MV_OK ? 0 : 1;
  }

  C->free_head = -1;
  for (int d = 0; d <= MV_MAXDEV; d++) C->head[d] = C->tail[d] = -1;
  int np = mc_harness.nprogs(g_tier);
  if (np > MAXPROG) { fprintf(stderr, "too many programs\n"); return 2; }
  int maxK = 0;
  for (int p = 0; p < np; p++) {
    int W, K; mc_harness.config(g_tier, p, &W, &K);
    if (g_Kover >= 0) K = g_Kover;
    if (g_Wover > 0) W = g_Wover;
    if (K > MV_MAXDEV) K = MV_MAXDEV;
    C->prog_K[p] = K; C->prog_W[p] = W; if (K > maxK) maxK = K;
    if (g_only_prog >= 0 && p != g_only_prog) continue;
    push_job(p, 0, NULL);
  }
  fflush(stdout);
  for (int j = 0; j < g_jobs; j++) { pid_t pid = fork(); if (pid == 0) explorer_proc(j); }
  int st; while (wait(&st) > 0) {}
  double wall = now() - g_t0;

  /* completed bound: largest k such that every schedule with <= k deviations of every program ran */
  int completed = maxK, capped = C->stop != 0;
  for (int d = 0; d <= maxK; d++) if (C->incomplete_depth[d]) { completed = d - 1; break; }
  int nviol_real = 0;
  for (int i = 0; i < C->nviol; i++) {
    viol_t * v = &C->viol[i];
    char path[512] = "";
    write_replay(replay_dir, v, i, path, sizeof path);
    char d[256] = ""; mc_harness.describe(g_tier, v->prog, d, sizeof d);
    if (v->verdict == MV_DIVERGENCE || v->verdict == MV_ENGINE_ERROR || !v->confirmed) {
      printf("ENGINE-ERROR harness=%s prog=%d (%s) verdict=%s confirmed=%d %s replay=%s\n", mc_harness.name, v->prog, d, mv_verdict_name[v->verdict], v->confirmed, v->msg, path);
    } else {
      nviol_real++;
      printf("FOUND property=%s harness=%s prog=%d program=[%s] verdict=%s deviations=%d msg=[%s] replay=%s\n", mc_harness.property, mc_harness.name, v->prog, d,
	     mv_verdict_name[v->verdict], v->ndev, v->msg, path);
    }
  }
  uint64_t need = mc_harness.cover_required ? mc_harness.cover_required(g_tier) : 0;
  int vacuous = (g_only_prog < 0) && !capped && nviol_real == 0 && ((C->cover & need) != need);
  if (stats) {
    FILE * f = fopen(stats, "w");
    if (f) {
      fprintf(f, "{\"harness\":\"%s\",\"property\":\"%s\",\"tier\":\"%s\",\"programs\":%d,\"schedules\":%ld,\"transitions\":%ld,\"max_steps\":%ld,",
	      mc_harness.name, mc_harness.property, g_tier ? "thorough" : "quick", np, C->runs, C->steps, C->max_steps);
      fprintf(f, "\"distinct_outcomes\":%ld,\"max_bound\":%d,\"completed_bound\":%d,\"deadline_hit\":%s,\"exhaustive\":%s,\"wall_s\":%.2f,\"jobs\":%d,\"seed\":%u,",
	      C->nout, maxK, completed, capped ? "true" : "false", capped ? "false" : "true", wall, g_jobs, g_seed);
      fprintf(f, "\"runs_at_depth\":["); for (int d = 0; d <= maxK; d++) fprintf(f, "%s%ld", d ? "," : "", C->runs_at_depth[d]); fprintf(f, "],");
      fprintf(f, "\"verdicts\":{"); for (int v = 0; v < MV_N_VERDICTS; v++) fprintf(f, "%s\"%s\":%ld", v ? "," : "", mv_verdict_name[v], C->verdicts[v]); fprintf(f, "},");
      int npid = 0; for (int i = 0; i < 256; i++) if (C->pid_seen[i >> 6] >> (i & 63) & 1) npid++;
      fprintf(f, "\"pids_seen\":["); { int fi = 1; for (int i = 0; i < 256; i++) if (C->pid_seen[i >> 6] >> (i & 63) & 1) { fprintf(f, "%s%d", fi ? "" : ",", i); fi = 0; } } fprintf(f, "],");
      fprintf(f, "\"distinct_hook_points\":%d,\"cover_bits\":\"%llx\",\"cover_required\":\"%llx\",\"cover\":{", npid, (unsigned long long)C->cover, (unsigned long long)need);
      int first = 1;
      for (int b = 0; mc_harness.cover_names && mc_harness.cover_names[b]; b++) { fprintf(f, "%s\"%s\":%s", first ? "" : ",", mc_harness.cover_names[b], (C->cover >> b & 1) ? "true" : "false"); first = 0; }
      fprintf(f, "},\"vacuous\":%s,\"engine_error\":%s,\"violations\":%d,", vacuous ? "true" : "false", C->engine_error ? "true" : "false", nviol_real);
      fprintf(f, "\"fresh_desc_max\":%ld,\"fresh_stack_max\":%ld,", C->fresh_desc_max, C->fresh_stack_max);
      fprintf(f, "\"samples\":[");
      for (int i = 0; i < C->nsample; i++) { fprintf(f, "%s\"", i ? "," : ""); json_escape(f, C->sample_obs[i]); fprintf(f, "\""); }
      fprintf(f, "],\"program_samples\":[");
      for (int p = 0; p < np && p < 6; p++) { char d[256] = ""; mc_harness.describe(g_tier, p, d, sizeof d); fprintf(f, "%s\"W=%d K=%d: ", p ? "," : "", C->prog_W[p], C->prog_K[p]); json_escape(f, d); fprintf(f, "\""); }
      fprintf(f, "],\"found\":[");
      int k = 0;
      for (int i = 0; i < C->nviol; i++) {
	viol_t * v = &C->viol[i];
	if (v->verdict == MV_DIVERGENCE || v->verdict == MV_ENGINE_ERROR || !v->confirmed) continue;
	char d[256] = ""; mc_harness.describe(g_tier, v->prog, d, sizeof d);
	char path[512]; snprintf(path, sizeof path, "%s/%s-%s-%d.json", replay_dir, mc_harness.property, mc_harness.name, i);
	fprintf(f, "%s{\"prog\":%d,\"program\":\"", k++ ? "," : "", v->prog); json_escape(f, d);
	fprintf(f, "\",\"verdict\":\"%s\",\"deviations\":%d,\"msg\":\"", mv_verdict_name[v->verdict], v->ndev); json_escape(f, v->msg);
	fprintf(f, "\",\"replay\":\"%s\"}", path);
      }
      fprintf(f, "]}\n");
      fclose(f);
    }
  }
  printf("SUMMARY harness=%s programs=%d schedules=%ld transitions=%ld outcomes=%ld bound=%d completed=%d capped=%d found=%d cover=%llx/%llx wall=%.1fs\n",
	 mc_harness.name, np, C->runs, C->steps, C->nout, maxK, completed, capped, nviol_real, (unsigned long long)C->cover, (unsigned long long)need, wall);
  if (C->engine_error) return 2;
  if (vacuous) { printf("VACUOUS harness=%s required coverage not reached\n", mc_harness.name); return 2; }
  return nviol_real ? 1 : 0;
}
