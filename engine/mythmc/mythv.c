/* mythv.c --- runtime behind the MYTH_VERIF hooks for engine E1.
 *
 * Exactly one worker (OS thread created by the library itself) owns the
 * token at any time while control is on; at every hook the owner asks the
 * schedule which worker continues.  Raw futexes only: no pthread calls, so
 * the wrapped (-ld/-dl) builds cannot capture the runtime.
 */
#define _GNU_SOURCE
#include <stdio.h>
#include <stdlib.h>
#include <stdarg.h>
#include <string.h>
#include <unistd.h>
#include <sched.h>
#include <errno.h>
#include <sys/syscall.h>
#include <linux/futex.h>
#include "mythmc.h"
#include "myth/myth.h"
#define MYTH_VERIF 1
#define MYTH_VERIF_NO_POINTS 1   /* the runtime's own atomics must not be turned into scheduling points */
#include "myth_verif.h"

/* optional hook audit (audit.c is linked only into audit builds) */
extern void mv_audit_begin(void) __attribute__((weak));
extern void mv_audit_end(const char * what) __attribute__((weak));
extern void mv_audit_forget(void * lo, void * hi) __attribute__((weak));
extern int mv_audit_pause __attribute__((weak));
extern int mv_fine_pause __attribute__((weak));

extern unsigned long myth_verif_idle_sig(int rank, int * local_nonempty, int * others_nonempty);
static unsigned long idle_sig(int rank, int * l, int * o) {
  if (&mv_audit_pause) mv_audit_pause++;
  if (&mv_fine_pause) mv_fine_pause++;
  unsigned long r = myth_verif_idle_sig(rank, l, o);
  if (&mv_fine_pause) mv_fine_pause--;
  if (&mv_audit_pause) mv_audit_pause--;
  return r;
}
extern int g_myth_verif_sig_skip_own;
static unsigned long sig_others(int v, int * oth) {
  int loc; g_myth_verif_sig_skip_own = 1;
  unsigned long s = idle_sig(v, &loc, oth);
  g_myth_verif_sig_skip_own = 0;
  return s;
}

mv_shared_t * mv_sh;
static mv_shared_t mv_dummy_shared;

const char * const mv_verdict_name[] = {
  "ok", "violation", "deadlock", "livelock", "crash", "exit", "timeout",
  "divergence", "engine-error" };

enum { ST_NONE = 0, ST_RUN, ST_READY, ST_SPIN, ST_IDLE, ST_YSPIN, ST_LEFT, ST_YMULTI, ST_WAITQ };
#define YL_MAX 8
enum { MODE_FREE = 0, MODE_CTL = 1 };

static struct {
  volatile int mode;
  volatile int begin_req;
  volatile int parked[MV_MAXW];
  volatile int go[MV_MAXW];
  int nw;
  int cur;
  int st[MV_MAXW];
  const volatile void * waddr[MV_MAXW];
  size_t wsz[MV_MAXW];
  uint64_t wsnap[MV_MAXW];
  unsigned long sigsnap[MV_MAXW];
  unsigned rr[MV_MAXW];           /* round-robin defaults of value choices */
  /* threads of one worker that wait in yield loops: words watched since another worker last ran */
  int yl_n[MV_MAXW]; long yl_epoch[MV_MAXW];
  const volatile void * yl_addr[MV_MAXW][YL_MAX]; size_t yl_sz[MV_MAXW][YL_MAX]; uint64_t yl_val[MV_MAXW][YL_MAX];
  void * yl_th[MV_MAXW][YL_MAX];
  long switches;
  int run_len;                    /* consecutive decisions that kept the same worker although another was enabled */
  uint64_t hash;
  long now_ns;
  int ended;
} S;

static __thread int tl_w = -1;

/* ------------------------------------------------------------------ futex */
static void fwait(volatile int * a, int v) {
  syscall(SYS_futex, a, FUTEX_WAIT_PRIVATE, v, NULL, NULL, 0);
}
static void fwake(volatile int * a) {
  syscall(SYS_futex, a, FUTEX_WAKE_PRIVATE, 1, NULL, NULL, 0);
}
static void park(int w) {
  while (__atomic_load_n(&S.go[w], __ATOMIC_ACQUIRE) == 0) fwait(&S.go[w], 0);
  __atomic_store_n(&S.go[w], 0, __ATOMIC_RELAXED);
}
static void wake(int w) {
  __atomic_store_n(&S.go[w], 1, __ATOMIC_RELEASE);
  fwake(&S.go[w]);
}

/* ------------------------------------------------------------------ verdicts */
static void finish_verdict(int v, const char * msg) __attribute__((noreturn));
static void finish_verdict(int v, const char * msg) {
  mv_sh->verdict = v;
  if (msg) { strncpy(mv_sh->msg, msg, sizeof(mv_sh->msg) - 1); }
  mv_sh->trace_hash = S.hash;
  if (mv_sh->trace_to_stderr) fprintf(stderr, "[mythv] verdict=%s %s\n", mv_verdict_name[v], msg ? msg : "");
  _exit(v == MV_OK ? 0 : 100 + v);
}

void mv_fail(const char * fmt, ...) {
  char buf[400];
  va_list ap; va_start(ap, fmt); vsnprintf(buf, sizeof buf, fmt, ap); va_end(ap);
  finish_verdict(MV_VIOLATION, buf);
}

static uint64_t mix(uint64_t h, uint64_t v) {
  h ^= v + 0x9e3779b97f4a7c15ULL + (h << 6) + (h >> 2);
  h *= 0xff51afd7ed558ccdULL; h ^= h >> 33;
  return h;
}

void mv_obs(const char * fmt, ...) {
  char buf[200];
  va_list ap; va_start(ap, fmt); int n = vsnprintf(buf, sizeof buf, fmt, ap); va_end(ap);
  if (n < 0) return;
  if (n >= (int)sizeof buf) n = sizeof buf - 1;
  for (int i = 0; i < n; i++) mv_sh->obs_hash = mix(mv_sh->obs_hash, (unsigned char)buf[i]);
  mv_sh->obs_hash = mix(mv_sh->obs_hash, 0x3b);
  if (mv_sh->obs_len + n + 2 < MV_OBS_SZ) {
    memcpy(mv_sh->obs + mv_sh->obs_len, buf, n); mv_sh->obs_len += n;
    mv_sh->obs[mv_sh->obs_len++] = ';'; mv_sh->obs[mv_sh->obs_len] = 0;
  }
}
void mv_cover(int bit) { mv_sh->cover |= 1ULL << bit; }
int mv_controlled(void) { return S.mode == MODE_CTL; }
int mv_worker(void) { return tl_w; }
long mv_now_ns(void) { return S.now_ns; }
long mv_steps(void) { return mv_sh->nsteps; }

/* ------------------------------------------------------------------ enabledness */
static uint64_t readval(const volatile void * a, size_t sz) {
  uint64_t v = 0;
  if (sz > 8) sz = 8;
  memcpy(&v, (const void *)a, sz);
  return v;
}

static int enabled_(int v);
static int enabled(int v) {
  if (&mv_audit_pause) mv_audit_pause++;
  int r = enabled_(v);
  if (&mv_audit_pause) mv_audit_pause--;
  return r;
}
static int enabled_(int v) {
  switch (S.st[v]) {
  case ST_RUN: case ST_READY: return 1;
  case ST_SPIN: return readval(S.waddr[v], S.wsz[v]) != S.wsnap[v];
  case ST_IDLE: {
    int loc, oth; unsigned long s = idle_sig(v, &loc, &oth);
    return s != S.sigsnap[v] || oth || loc;
  }
  case ST_YSPIN: {
    int loc, oth; unsigned long s = idle_sig(v, &loc, &oth);
    return readval(S.waddr[v], S.wsz[v]) != S.wsnap[v] || s != S.sigsnap[v] || oth || loc;
  }
  case ST_YMULTI: return 1;   /* runnable, but every thread it holds seems to wait: lowest priority */
  default: return 0;
  }
}

/* ------------------------------------------------------------------ decisions */
static int next_choice(int kind, int pid, int w, int mask, int nalt) {
  int i = mv_sh->nsteps;
  if (i >= MV_MAXSTEPS - 1) finish_verdict(MV_LIVELOCK, "step horizon exceeded (livelock or unfair spin)");
  uint64_t pre = mix(mix(mix(mix(mix(S.hash, kind), pid), w), mask), nalt);
  mv_sh->prefix_hash[i] = pre;
  int c = 0;
  if (mv_sh->ndev_used < mv_sh->ndev && mv_sh->dev[mv_sh->ndev_used].step == i) {
    mv_dev_t * d = &mv_sh->dev[mv_sh->ndev_used];
    if (d->expect != pre) {
      char b[160]; snprintf(b, sizeof b, "replay diverged at decision %d (expected trace hash %llx, got %llx)", i,
			    (unsigned long long)d->expect, (unsigned long long)pre);
      finish_verdict(MV_DIVERGENCE, b);
    }
    if (d->alt >= nalt) finish_verdict(MV_DIVERGENCE, "replay: alternative out of range");
    c = d->alt;
    mv_sh->ndev_used++;
  } else if (mv_sh->ndev_used < mv_sh->ndev && mv_sh->dev[mv_sh->ndev_used].step < i) {
    finish_verdict(MV_DIVERGENCE, "replay: deviation step skipped");
  }
  S.hash = mix(pre, c);
  mv_step_t * st = &mv_sh->steps[i];
  st->pid = pid; st->w = w; st->nalt = nalt; st->chosen = c; st->mask = mask; st->kind = kind;
  mv_sh->nsteps = i + 1;
  if (pid < 256) mv_sh->pid_seen[pid >> 6] |= 1ULL << (pid & 63);
  return c;
}

static void leave_control(void) {
  S.mode = MODE_FREE; S.ended = 1; S.begin_req = 0;
  for (int v = 0; v < S.nw; v++) {
    if (v != tl_w && S.st[v] != ST_LEFT && S.st[v] != ST_NONE) wake(v);
  }
}

/* called by the token owner w after it recorded its own state in S.st[w] */
static void decide(int w, int pid) {
  int mask = 0, nalt = 0, alts[MV_MAXW];
  for (int v = 0; v < S.nw; v++) if (enabled(v)) mask |= 1 << v;
  if (!mask) {
    /* a worker waiting for quiescence continues once nobody else can do anything */
    for (int v = 0; v < S.nw; v++) if (S.st[v] == ST_WAITQ) { mask |= 1 << v; break; }
  }
  if (!mask) {
    int all_left = 1;
    for (int v = 0; v < S.nw; v++) if (S.st[v] != ST_LEFT) all_left = 0;
    if (all_left) { S.mode = MODE_FREE; S.ended = 1; return; }
    char b[200]; int n = snprintf(b, sizeof b, "no worker can make progress (deadlock / lost wake-up); states:");
    for (int v = 0; v < S.nw; v++) n += snprintf(b + n, sizeof b - n, " w%d=%d", v, S.st[v]);
    finish_verdict(MV_DEADLOCK, b);
  }
  int d = w, hi = 0;
  for (int v = 0; v < S.nw; v++) if ((mask >> v & 1) && S.st[v] != ST_YMULTI) hi |= 1 << v;
  int pref = hi ? hi : mask;   /* fairness: a worker whose threads all wait in yield loops runs only if nobody else can */
  if (S.run_len > 400 && (pref & ~(1 << w))) { pref &= ~(1 << w); S.run_len = 0; }  /* and nobody monopolises the token for ever */
  if (!(pref >> w & 1)) { for (int k = 1; k <= S.nw; k++) { int v = (w + k) % S.nw; if (pref >> v & 1) { d = v; break; } } }
  alts[nalt++] = d;
  for (int v = 0; v < S.nw; v++) if ((mask >> v & 1) && v != d) alts[nalt++] = v;
  int c = next_choice(MV_STEP_SCHED, pid, w, mask, nalt);
  int nxt = alts[c];
  mv_sh->steps[mv_sh->nsteps - 1].tgt = nxt;
  if (mv_sh->trace_to_stderr)
    fprintf(stderr, "[mythv] %5d w%d pid=%-3d mask=%x nalt=%d c=%d -> w%d\n", mv_sh->nsteps - 1, w, pid, mask, nalt, c, nxt);
  if (nxt == w) { S.st[w] = ST_RUN; if (nalt > 1) S.run_len++; return; }
  S.cur = nxt; S.switches++; S.run_len = 0;
  int left = (S.st[w] == ST_LEFT);
  wake(nxt);
  if (left) return;
  park(w);
  if (S.mode == MODE_CTL) S.st[w] = ST_RUN;
}

static int in_control(void) { return S.mode == MODE_CTL && tl_w >= 0; }

/* hook points that a thread executes while it merely yields in a wait loop; any other point
   means some thread of this worker did real work since the last yield-loop marker */
static int yield_only_point(int id) {
  switch (id) {
  case mythv_p_cas: case mythv_p_spin_unlock: case mythv_p_spin_lock_wait:
  case mythv_p_q_pop_check: case mythv_p_q_pop_dec: case mythv_p_q_pop_base: case mythv_p_q_pop_slot:
  case mythv_p_q_take_check: case mythv_p_q_take_inc: case mythv_p_q_take_top: case mythv_p_q_take_slot: case mythv_p_q_take_rollback:
  case mythv_p_q_put: case mythv_p_random: case mythv_p_once_wait: case mythv_p_once_load: case mythv_p_user + 1: case mythv_p_ctx_save:
    return 1;
  default: return 0;
  }
}

static void check_owner(const char * what) {
  if (S.cur != tl_w) {
    char b[120]; snprintf(b, sizeof b, "hook %s called by worker %d which does not own the token (owner %d)", what, tl_w, S.cur);
    finish_verdict(MV_ENGINE_ERROR, b);
  }
  /* the ABI wants rsp 16-byte aligned at every call: our own frame tells */
  uintptr_t fa = (uintptr_t)__builtin_frame_address(0);
  if (fa & 15) {
    char b[120]; snprintf(b, sizeof b, "misaligned stack at hook %s: frame address %p", what, (void *)fa);
    finish_verdict(MV_VIOLATION, b);
  }
}

/* ------------------------------------------------------------------ hooks */
void mythv_worker(int rank) { tl_w = rank; }

/* owner-side run-queue operations (push, pop, put) are unsynchronised against each other: only the queue's own worker may execute them */
static int owner_side_point(int id) {
  switch (id) {
  case mythv_p_q_push_top: case mythv_p_q_push_slot: case mythv_p_q_push_pub:
  case mythv_p_q_pop_dec: case mythv_p_q_pop_base: case mythv_p_q_pop_slot:
  case mythv_p_q_put: case mythv_p_q_put_recentre:
    return 1;
  default: return 0;
  }
}
void mythv_point(int id, const volatile void * addr, size_t sz) {
  (void)sz;
  if (!in_control()) return;
  check_owner("point");
  if (owner_side_point(id)) {
    extern int mythv_queue_owner(const volatile void * addr, int nworkers);
    int o = mythv_queue_owner(addr, S.nw);
    if (o >= 0 && o != tl_w) {
      char b[360]; snprintf(b, sizeof b, "an owner-side operation (push / pop / put, hook point %d) on the run queue of worker %d is executed by worker %d (these operations are not synchronised against each other: only the queue's own worker may execute them; a stale worker pointer, or an owner-side function called from the thief side)", id, o, tl_w);
      finish_verdict(MV_VIOLATION, b);
    }
  }
  if (!yield_only_point(id)) S.yl_n[tl_w] = 0;
  S.st[tl_w] = ST_READY;
  decide(tl_w, id);
}

void mythv_spin(int id, const volatile void * addr, size_t sz) {
  if (!in_control()) { return; }
  check_owner("spin");
  int w = tl_w;
  if (id == mythv_p_migrate_home && readval(addr, sz) == 0) {
    /* the failed trypass was not caused by a held lock: not a wait on this word */
    S.st[w] = ST_READY; decide(w, id); return;
  }
  S.st[w] = ST_SPIN; S.waddr[w] = addr; S.wsz[w] = sz; S.wsnap[w] = readval(addr, sz);
  decide(w, id);
}

void mythv_yspin(int id, const volatile void * addr, size_t sz) {
  if (!in_control()) return;
  check_owner("yspin");
  int w = tl_w, loc, oth;
  unsigned long s = idle_sig(w, &loc, &oth);
  if (loc && !oth) {
    /* other threads of this worker are runnable: yielding to them is progress, unless they
       all turn out to wait in yield loops as well (the same word comes round unchanged) */
    if (S.yl_epoch[w] != S.switches) { S.yl_n[w] = 0; S.yl_epoch[w] = S.switches; }
    uint64_t val = readval(addr, sz);
    extern void * mythv_cur_thread(int rank);
    void * me = mythv_cur_thread(w);
    int seen = 0;
    for (int i = 0; i < S.yl_n[w]; i++) if (S.yl_addr[w][i] == addr && S.yl_th[w][i] == me) { seen = (S.yl_val[w][i] == val); S.yl_val[w][i] = val; if (!seen) S.yl_n[w] = 0; break; }
    if (seen) {
      S.st[w] = ST_YMULTI; decide(w, id); S.yl_n[w] = 0; S.yl_epoch[w] = S.switches; return;
    }
    if (S.yl_n[w] < YL_MAX) { int k = S.yl_n[w]++; S.yl_addr[w][k] = addr; S.yl_sz[w][k] = sz; S.yl_val[w][k] = val; S.yl_th[w][k] = me; }
    S.st[w] = ST_READY; decide(w, id); return;
  }
  if (loc || oth) { S.st[w] = ST_READY; decide(w, id); return; }
  S.st[w] = ST_YSPIN; S.waddr[w] = addr; S.wsz[w] = sz; S.wsnap[w] = readval(addr, sz); S.sigsnap[w] = s;
  decide(w, id);
}

void mythv_idle(int id, int rank) {
  if (S.mode != MODE_CTL) {
    if (S.begin_req && !S.ended && tl_w >= 0) {
      /* initial rendez-vous: every other worker parks at its idle loop */
      __atomic_store_n(&S.parked[tl_w], 1, __ATOMIC_RELEASE);
      park(tl_w);
      if (S.mode == MODE_CTL) S.st[tl_w] = ST_RUN;
    } else {
      syscall(SYS_sched_yield);
    }
    return;
  }
  if (tl_w < 0) return;
  check_owner("idle");
  int w = tl_w, loc, oth;
  (void)rank;
  /* the library reaches this hook only after reading exit_flag == 0; when every access is a
     scheduling point the flag may have been set between that read and this call.  Taking the
     snapshot now would hide that change for good, whereas the real worker simply goes round its
     loop and sees the flag: so do not park. */
  { extern int mythv_exit_requested(int rank);
    if (&mv_audit_pause) mv_audit_pause++;
    if (&mv_fine_pause) mv_fine_pause++;
    int ex = mythv_exit_requested(w);
    if (&mv_fine_pause) mv_fine_pause--;
    if (&mv_audit_pause) mv_audit_pause--;
    if (ex) return; }
  S.sigsnap[w] = idle_sig(w, &loc, &oth);
  S.st[w] = ST_IDLE;
  /* work visible somewhere: stay enabled (the next attempt may pick that victim) */
  decide(w, id);
}

int mythv_choose(int id, int n) {
  if (!in_control()) return -1;
  if (n <= 1) return 0;
  check_owner("choose");
  int w = tl_w;
  int d = S.rr[w]++ % n;
  int c = next_choice(MV_STEP_VALUE, id, w, n, n);
  int v = (d + c) % n;
  mv_sh->steps[mv_sh->nsteps - 1].tgt = v;
  if (mv_sh->trace_to_stderr) fprintf(stderr, "[mythv] %5d w%d choose(%d) -> %d\n", mv_sh->nsteps - 1, w, n, v);
  return v;
}

#define MV_EPOCH_SEC 1000000L
#define MV_TICK_NS   1000L
#define MV_JUMP_NS   1000000000L
static long mv_tick_ns = MV_TICK_NS, mv_jump_ns = MV_JUMP_NS;
/* a harness that sleeps for seconds makes the clock coarse: every read advances it by tick_ns (default answer) or jump_ns (deviation) */
void mv_set_clock_step(long tick_ns, long jump_ns) { mv_tick_ns = tick_ns; mv_jump_ns = jump_ns; }

/* clock samples: what a watched word held each time a thread read the clock (timed waits attempt right after) */
static const volatile void * cw_addr; static size_t cw_sz;
static mv_csample_t CS[512]; static int ncs;
void mv_watch(const volatile void * addr, size_t sz) { cw_addr = addr; cw_sz = sz; ncs = 0; }
int mv_clock_samples(void * thread, mv_csample_t * out, int max) {
  int n = 0;
  for (int i = 0; i < ncs && n < max; i++) if (CS[i].thread == thread) { out[n] = CS[i]; out[n].next_switches = S.switches; for (int j = i + 1; j < ncs; j++) if (CS[j].thread == thread) { out[n].next_switches = CS[j].switches; break; } n++; }
  return n;
}

int mythv_clock(struct timespec * ts) {
  if (!in_control()) return 0;
  check_owner("clock");
  S.yl_n[tl_w] = 0;
  int c = next_choice(MV_STEP_VALUE, mythv_p_clock, tl_w, 2, 2);
  S.now_ns += c ? mv_jump_ns : mv_tick_ns;
  mv_sh->steps[mv_sh->nsteps - 1].tgt = c;
  ts->tv_sec = MV_EPOCH_SEC + S.now_ns / 1000000000L;
  ts->tv_nsec = S.now_ns % 1000000000L;
  if (cw_addr && ncs < 512) { extern void * mythv_cur_thread(int rank); CS[ncs].thread = mythv_cur_thread(tl_w); CS[ncs].now_ns = S.now_ns; CS[ncs].value = readval(cw_addr, cw_sz); CS[ncs].switches = S.switches; ncs++; }
  return 1;
}

void mv_clock_read(struct timespec * ts) {
  ts->tv_sec = MV_EPOCH_SEC + S.now_ns / 1000000000L;
  ts->tv_nsec = S.now_ns % 1000000000L;
}

void mythv_fence(int kind, int drains) { (void)kind; (void)drains; }

void mythv_leave(int rank) {
  (void)rank;
  if (!in_control()) return;
  check_owner("leave");
  S.st[tl_w] = ST_LEFT;
  int w = tl_w;
  tl_w = -1;                 /* this OS thread is outside the scheduler from now on */
  decide(w, 0);
}

/* ------------------------------------------------------------------ ledger */
#define LG_MAX 2048
enum { LG_FREE = 0, LG_OWNED = 1 };
static struct lg { void * p; size_t sz; int kind, state, rank; } LG[LG_MAX];
static int lg_n;
static long lg_out[2], lg_fresh[2];
static size_t lg_defstack;

static struct lg * lg_find(int kind, void * p) {
  for (int i = 0; i < lg_n; i++) if (LG[i].p == p && LG[i].kind == kind) return &LG[i];
  return NULL;
}
static void lg_range(struct lg * e, char ** lo, char ** hi) {
  size_t sz = e->sz ? e->sz : lg_defstack;
  *hi = (char *)e->p + 2 * sizeof(void *);
  *lo = *hi - sz;
}
/* the allocator block behind a custom-size stack: power-of-two size classes (myth_flmalloc), the stack sits at its start */
static void lg_block(struct lg * e, char ** lo, char ** hi) {
  lg_range(e, lo, hi);
  if (e->sz) { size_t cap = 8; while (cap < e->sz) cap <<= 1; *hi = *lo + cap; }
}

void mythv_alloc(int kind, void * p, size_t sz, int rank) {
  if (!mv_sh || mv_sh == &mv_dummy_shared) return;
  if (tl_w < 0 || S.ended) return;
  struct lg * e = lg_find(kind, p);
  if (e && e->state == LG_OWNED) {
    char b[200]; snprintf(b, sizeof b, "%s %p handed out by worker %d while still in use (never released since worker %d got it)",
			  kind == mythv_k_desc ? "thread record" : "stack", p, rank, e->rank);
    finish_verdict(MV_VIOLATION, b);
  }
  if (!e) {
    if (lg_n >= LG_MAX) finish_verdict(MV_VIOLATION, "runaway thread creation: a bounded program made the library hand out more than 2048 distinct thread records / stacks (unbounded recursion)");
    e = &LG[lg_n++]; e->p = p; e->kind = kind; lg_fresh[kind]++;
    if (kind == mythv_k_desc) mv_sh->fresh_desc++; else mv_sh->fresh_stack++;
  } else {
    if (kind == mythv_k_desc) mv_sh->reuse_desc++; else mv_sh->reuse_stack++;
  }
  e->state = LG_OWNED; e->sz = sz; e->rank = rank; lg_out[kind]++;
  {
    /* a thread record and a stack never share memory, whatever their state */
    char * lo, * hi; if (kind == mythv_k_stack) lg_block(e, &lo, &hi); else { lo = (char *)p; hi = lo + sz; }
    for (int i = 0; i < lg_n; i++) {
      struct lg * o = &LG[i]; if (o->kind == kind) continue;
      char * lo2, * hi2; if (o->kind == mythv_k_stack) lg_block(o, &lo2, &hi2); else { lo2 = (char *)o->p; hi2 = lo2 + (o->sz ? o->sz : 64); }
      if (lo < hi2 && lo2 < hi) {
	char b[240]; snprintf(b, sizeof b, "%s [%p,%p) handed out overlaps %s [%p,%p) (%s): the allocator maps or files blocks with a wrong size",
			      kind == mythv_k_stack ? "stack block" : "thread record", lo, hi, o->kind == mythv_k_stack ? "stack block" : "thread record", lo2, hi2, o->state == LG_OWNED ? "in use" : "released");
	finish_verdict(MV_VIOLATION, b);
      }
    }
  }
  if (kind == mythv_k_stack) {
    char * lo, * hi, * lo2, * hi2; lg_range(e, &lo, &hi);
    for (int i = 0; i < lg_n; i++) {
      struct lg * o = &LG[i];
      if (o == e || o->kind != mythv_k_stack) continue;
      lg_range(o, &lo2, &hi2);
      if (o->state != LG_OWNED) {
	/* a block the allocator got back earlier: a later hand-out must be that very block again (same start, same
	   size class) or lie elsewhere; anything that straddles it was released at a wrong address or into a wrong class */
	char * bl, * bh, * bl2, * bh2; lg_block(e, &bl, &bh); lg_block(o, &bl2, &bh2);
	if (bl < bh2 && bl2 < bh && !(bl == bl2 && bh == bh2)) {
	  char b[260]; snprintf(b, sizeof b, "stack block [%p,%p) (requested %zu) handed out partially overlaps a previously released stack block [%p,%p) (requested %zu): released at a wrong address or into a wrong size class",
				bl, bh, e->sz, bl2, bh2, o->sz);
	  finish_verdict(MV_VIOLATION, b);
	}
	continue;
      }
      if (lo < hi2 && lo2 < hi) {
	char b[200]; snprintf(b, sizeof b, "stacks of two live threads overlap: [%p,%p) size %zu and [%p,%p) size %zu",
			      lo, hi, e->sz, lo2, hi2, o->sz);
	finish_verdict(MV_VIOLATION, b);
      }
    }
  }
}

void mythv_free(int kind, void * p, size_t sz, int rank) {
  if (!mv_sh || mv_sh == &mv_dummy_shared) return;
  if (tl_w < 0 || S.ended) return;
  if (S.mode == MODE_CTL && rank != tl_w) {
    char b[200]; snprintf(b, sizeof b, "%s %p released by worker %d into the unsynchronised free list of worker %d", kind == mythv_k_desc ? "thread record" : "stack", p, tl_w, rank);
    finish_verdict(MV_VIOLATION, b);
  }
  struct lg * e = lg_find(kind, p);
  if (!e) {
    if (S.ended || S.mode != MODE_CTL) return;   /* objects created before control began */
    /* the main thread's record was obtained before the ledger could see it */
    return;
  }
  if (e->state != LG_OWNED) {
    char b[200]; snprintf(b, sizeof b, "%s %p released twice (second release by worker %d)",
			  kind == mythv_k_desc ? "thread record" : "stack", p, rank);
    finish_verdict(MV_VIOLATION, b);
  }
  if (kind == mythv_k_stack) {
    char * lo, * hi; lg_range(e, &lo, &hi);
    if (sz != e->sz) {
      char b[200]; snprintf(b, sizeof b, "stack %p released with size word %zu but was allocated with %zu", p, sz, e->sz);
      finish_verdict(MV_VIOLATION, b);
    }
    char * sp = (char *)__builtin_frame_address(0);
    if (sp >= lo && sp < hi) {
      char b[200]; snprintf(b, sizeof b, "stack [%p,%p) released by worker %d while it is still executing on it (sp=%p)", lo, hi, rank, sp);
      finish_verdict(MV_VIOLATION, b);
    }
    /* poison: any later legitimate-looking use of the released stack fails deterministically */
    memset(lo, 0xDB, (char *)p - lo);
    if (mv_audit_forget) mv_audit_forget(lo, hi);
  } else {
    extern void mythv_poison_desc(void * th);
    mythv_poison_desc(p);
    if (mv_audit_forget) mv_audit_forget(p, (char *)p + sz);
  }
  e->state = LG_FREE; e->rank = rank; lg_out[kind]--;
}

/* which known stack does this stack pointer lie in (fine mode: accesses to the own stack are private) */
int mv_stack_range_of(const void * sp, uintptr_t * lo, uintptr_t * hi) {
  for (int i = 0; i < lg_n; i++) {
    if (LG[i].kind != mythv_k_stack) continue;
    char * l, * h; lg_range(&LG[i], &l, &h);
    if ((const char *)sp >= l && (const char *)sp < h) { *lo = (uintptr_t)l; *hi = (uintptr_t)h; return 1; }
  }
  return 0;
}
long mv_ledger_outstanding(int kind) { return lg_out[kind]; }
volatile long * mv_ledger_out_ptr(int kind) { return &lg_out[kind]; }
long mv_ledger_fresh(int kind) { return lg_fresh[kind]; }

/* ------------------------------------------------------------------ harness API */
void mv_point(const volatile void * addr, size_t sz) { mythv_point(mythv_p_user, addr, sz); }

/* let every other worker run until none of them can make progress any more */
void mv_quiesce(void) {
  if (!in_control()) return;
  check_owner("quiesce");
  S.st[tl_w] = ST_WAITQ;
  decide(tl_w, mythv_p_user + 2);
}

void mv_wait_until_changed(const volatile void * addr, size_t sz) {
  mythv_yspin(mythv_p_user + 1, addr, sz);
  myth_yield();
}

__attribute__((weak)) int mv_is_fine = 0;
void mv_spin_until_changed(const volatile void * addr, size_t sz) { mythv_spin(mythv_p_user + 1, addr, sz); }

static size_t mv_req_stacksize;
void mv_set_default_stacksize(size_t sz) { mv_req_stacksize = sz; }   /* call before mv_start */

void mv_start(int nworkers) {
  if (!mv_sh) mv_sh = &mv_dummy_shared;
  myth_globalattr_t ga[1];
  myth_globalattr_init(ga);
  myth_globalattr_set_n_workers(ga, nworkers);
  myth_globalattr_set_bind_workers(ga, 0);
  if (mv_req_stacksize) myth_globalattr_set_stacksize(ga, mv_req_stacksize);
  { size_t ss; myth_globalattr_get_stacksize(ga, &ss); lg_defstack = ss; }
  myth_init_ex(ga);
  if (tl_w < 0) finish_verdict(MV_ENGINE_ERROR, "main thread is not a worker after myth_init_ex");
  S.nw = nworkers;
  if (nworkers > MV_MAXW) finish_verdict(MV_ENGINE_ERROR, "too many workers");
  __atomic_store_n(&S.begin_req, 1, __ATOMIC_RELEASE);
  for (int v = 0; v < nworkers; v++) {
    if (v == tl_w) continue;
    while (!__atomic_load_n(&S.parked[v], __ATOMIC_ACQUIRE)) syscall(SYS_sched_yield);
  }
  for (int v = 0; v < nworkers; v++) {
    int loc, oth;
    if (v == tl_w) { S.st[v] = ST_RUN; continue; }
    S.st[v] = ST_IDLE; S.sigsnap[v] = idle_sig(v, &loc, &oth);
  }
  S.cur = tl_w; S.hash = 0x1234; S.now_ns = 0;
  if (mv_audit_begin) mv_audit_begin();
  __atomic_store_n(&S.mode, MODE_CTL, __ATOMIC_RELEASE);
}

void mv_finish(void) {
  if (S.mode != MODE_CTL) return;
  check_owner("finish");
  mv_sh->trace_hash = S.hash;
  if (mv_audit_end) mv_audit_end(mv_sh->obs);
  leave_control();
}
