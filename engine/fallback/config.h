/* src/config.h.  Generated from config.h.in by configure.  */
/* src/config.h.in.  Generated from configure.ac by autoheader.  */

/* global symbol modifier (foo) */
#define GLOBAL_SYM_MODIFIER GLOBAL_SYM_MODIFIER_NO_UNDERSCORE_WITH_PLT

/* Define to 1 if you have the `accept4' function. */
#define HAVE_ACCEPT4 1

/* if set, aligned_alloc is declared in stdlib.h */
#define HAVE_ALIGNED_ALLOC 1

/* if set, sysv_abi attribute is available */
#define HAVE_ATTR_SYSV_ABI 1

/* Define to 1 if you have the <dlfcn.h> header file. */
#define HAVE_DLFCN_H 1

/* Define to 1 if you have the <inttypes.h> header file. */
#define HAVE_INTTYPES_H 1

/* Define to 1 if you have the `pthread' library (-lpthread). */
#define HAVE_LIBPTHREAD 1

/* Define to 1 if you have the `rt' library (-lrt). */
#define HAVE_LIBRT 1

/* Define to 1 if you have the <link.h> header file. */
#define HAVE_LINK_H 1

/* Define to 1 if you have the <malloc.h> header file. */
#define HAVE_MALLOC_H 1

/* if set, memalign is declared in stdlib.h */
#define HAVE_MEMALIGN 1

/* pthread_attr_setaffinity_np etc. */
#define HAVE_PTHREAD_AFFINITY_NP /**/

/* pthread_getattr_default_np etc. */
#define HAVE_PTHREAD_ATTR_NP /**/

/* Define to 1 if you have the `pthread_attr_setaffinity_np' function. */
#define HAVE_PTHREAD_ATTR_SETAFFINITY_NP 1

/* if set, pthread_barrier is declared in pthread.h */
#define HAVE_PTHREAD_BARRIER 1

/* pthread_getconcurrency etc. */
#define HAVE_PTHREAD_CONCURRENCY /**/

/* pthread_condattr_getclock etc. */
#define HAVE_PTHREAD_CONDATTR_CLOCK /**/

/* Define to 1 if you have the `pthread_condattr_getclock' function. */
#define HAVE_PTHREAD_CONDATTR_GETCLOCK 1

/* Define to 1 if you have the `pthread_getattr_default_np' function. */
#define HAVE_PTHREAD_GETATTR_DEFAULT_NP 1

/* Define to 1 if you have the `pthread_getconcurrency' function. */
#define HAVE_PTHREAD_GETCONCURRENCY 1

/* Define to 1 if you have the `pthread_getcpuclockid' function. */
#define HAVE_PTHREAD_GETCPUCLOCKID 1

/* Define to 1 if you have the `pthread_getname_np' function. */
#define HAVE_PTHREAD_GETNAME_NP 1

/* pthread_tryjoin_np etc. */
#define HAVE_PTHREAD_JOIN_NP /**/

/* Define to 1 if you have the `pthread_mutexattr_getrobust' function. */
#define HAVE_PTHREAD_MUTEXATTR_GETROBUST 1

/* pthread_mutexattr_getrobust etc. */
#define HAVE_PTHREAD_MUTEXATTR_ROBUST /**/

/* Define to 1 if you have the `pthread_mutex_consistent' function. */
#define HAVE_PTHREAD_MUTEX_CONSISTENT 1

/* Define to 1 if you have the `pthread_mutex_timedlock' function. */
#define HAVE_PTHREAD_MUTEX_TIMEDLOCK 1

/* pthread_getname_np etc. */
#define HAVE_PTHREAD_NAME_NP /**/

/* Define to 1 if you have the `pthread_setschedprio' function. */
#define HAVE_PTHREAD_SETSCHEDPRIO 1

/* Define to 1 if you have the `pthread_sigqueue' function. */
#define HAVE_PTHREAD_SIGQUEUE 1

/* pthread_spin_init etc. */
#define HAVE_PTHREAD_SPIN /**/

/* Define to 1 if you have the `pthread_spin_init' function. */
#define HAVE_PTHREAD_SPIN_INIT 1

/* Define to 1 if you have the `pthread_tryjoin_np' function. */
#define HAVE_PTHREAD_TRYJOIN_NP 1

/* if set, pthread_yield is declared in pthread.h */
/* #undef HAVE_PTHREAD_YIELD */

/* if set, pvalloc is declared in stdlib.h */
#define HAVE_PVALLOC 1

/* Define to 1 if you have the `sched_getaffinity' function. */
#define HAVE_SCHED_GETAFFINITY 1

/* Define to 1 if you have the <sqlite3.h> header file. */
#define HAVE_SQLITE3_H 1

/* Define to 1 if you have the <stdint.h> header file. */
#define HAVE_STDINT_H 1

/* Define to 1 if you have the <stdio.h> header file. */
#define HAVE_STDIO_H 1

/* Define to 1 if you have the <stdlib.h> header file. */
#define HAVE_STDLIB_H 1

/* Define to 1 if you have the <strings.h> header file. */
#define HAVE_STRINGS_H 1

/* Define to 1 if you have the <string.h> header file. */
#define HAVE_STRING_H 1

/* Define to 1 if you have the `sysconf' function. */
#define HAVE_SYSCONF 1

/* Define to 1 if you have the <sys/stat.h> header file. */
#define HAVE_SYS_STAT_H 1

/* Define to 1 if you have the <sys/types.h> header file. */
#define HAVE_SYS_TYPES_H 1

/* Define to 1 if you have the <unistd.h> header file. */
#define HAVE_UNISTD_H 1

/* Define to the sub-directory where libtool stores uninstalled libraries. */
#define LT_OBJDIR ".libs/"

/* if 1, child first by default */
#define MYTH_CHILD_FIRST 1

/* if 1, bind workers by default */
#define MYTH_DEFAULT_BIND_WORKERS 1

/* Default guard size */
#define MYTH_DEF_GUARD_SIZE 4096

/* Default stack size */
#define MYTH_DEF_STACK_SIZE 131072

/* if 1, enable eco-mode */
#define MYTH_ECO_MODE 0

/* if 1, enable eco-mode */
#define MYTH_ECO_TEIAN_STEAL 0

/* use ucontext if set, otherwise assembly context */
#define MYTH_FORCE_UCONTEXT 0

/* Scheduler stack size */
#define MYTH_SCHED_STACK_SIZE 1048576

/* Define to 1 if your C compiler doesn't accept -c and -o together. */
/* #undef NO_MINUS_C_MINUS_O */

/* Name of package */
#define PACKAGE "massivethreads"

/* Define to the address where bug reports for this package should be sent. */
#define PACKAGE_BUGREPORT "massivethreads@eidos.ic.i.u-tokyo.ac.jp"

/* Define to the full name of this package. */
#define PACKAGE_NAME "massivethreads"

/* Define to the full name and version of this package. */
#define PACKAGE_STRING "massivethreads 0.97"

/* Define to the one symbol short name of this package. */
#define PACKAGE_TARNAME "massivethreads"

/* Define to the home page for this package. */
#define PACKAGE_URL "https://github.com/massivethreads/massivethreads/"

/* Define to the version of this package. */
#define PACKAGE_VERSION "0.97"

/* the number of args pthread_setname_arity takes; it takes thread id and name
   on Linux but only name on Macintosh (older pthreads?) */
#define PTHREAD_SETNAME_ARITY 2

/* The size of `int', as computed by sizeof. */
#define SIZEOF_INT 4

/* The size of `void*', as computed by sizeof. */
#define SIZEOF_VOIDP 8

/* Define to 1 if all of the C90 standard headers exist (not just the ones
   required in a freestanding environment). This macro is provided for
   backward compatibility; new code need not use it. */
#define STDC_HEADERS 1

/* Version number of package */
#define VERSION "0.97"
