#!/bin/bash
# build_lib.sh OUTDIR [extra cflags...] : compile the library from /repo's working tree into OUTDIR/*.o
set -e
out=$1; shift
mkdir -p "$out"
REPO=${REPO:-/repo}
HERE="$(cd "$(dirname "$0")" && pwd)"   # fallback/config.h: configure output of this sandbox, used only when $REPO/src/config.h is absent (fresh git snapshot)
SRCS="myth_log myth_sched myth_internal_barrier myth_bind_worker myth_worker myth_sync myth_init myth_misc myth_tls myth_thread myth_context myth_if_native myth_real myth_eco"
WRAP=${WRAP:-MYTH_WRAP_VANILLA}
if [ "$WRAP" != MYTH_WRAP_VANILLA ]; then SRCS="$SRCS myth_wrap_pthread myth_wrap_malloc myth_wrap_socket"; fi
pids=()
for f in $SRCS; do
  ( ${CC:-gcc} -c -w -D_GNU_SOURCE -D_XOPEN_SOURCE -D_DARWIN_C_SOURCE -DMYTH_WRAP=$WRAP -I$REPO/include -I$REPO/src -I$HERE/fallback "$@" $REPO/src/$f.c -o "$out/$f.o" ) &
  pids+=($!)
done
rc=0
for p in "${pids[@]}"; do wait $p || rc=1; done
exit $rc
