"""texts for MANIFEST.json"""
E1_TECH = "stateless model checking of the real library: exhaustive enumeration of all schedules with <= K deviations (preemptions, steal-victim/yield/clock answers) under a token-passing scheduler, one forked child per execution"
E1_NOTE = ("trusted base: hook placement in src/myth_verif.h users (a point before every CAS, lock release, run-queue index/slot access, status publication, lock-protected descriptor field, and in every wait loop); "
           "sequentially consistent interleavings only; bounds W (workers), K (deviations) and the program grammar as written in the evidence file; every violation is replayed twice before it is reported")

def e1meta(text):
    return {"engine": "E1 mythmc", "text": text, "note": E1_NOTE, "technique": E1_TECH}

META = {
 "C01": e1meta("Every fork-join program of the harness grammar (<=3 created threads, 9 creation variants incl. attribute objects prepared from garbage storage and NULL id, return vs myth_exit, both join orders) is run under every schedule with <=2 (quick) / <=3 (thorough) deviations on 1-3 workers; the oracle counts invocations, compares joined values and a buffer written by the child. A coverage statement, not a sample."),
 "C02": {"engine": "E2 unitmc + E1 mythmc",
         "technique": "explicit-state model checking of the real run-queue code at memory-access granularity (compiler-inserted access callbacks, snapshot/restore DFS with a visited set) under SC and an x86-TSO store-buffer machine; plus deviation-bounded stateless exploration of the whole library on an 8-entry queue",
         "note": "trusted base: the x86-TSO abstract machine of unitmc.c and the fence annotations (MYTH_VERIF_FENCE) in myth_mem_barrier_func.h; state = global image + store buffers + live coroutine stacks (over-fine, never merges distinct states); " + E1_NOTE,
         "text": "Every load, store and atomic of the real myth_queue_* / myth_wsapi_runqueue_* code is a transition: ~1400 (quick) configurations of capacity, fill level (incl. both storage boundaries), owner program and 1-2 thief programs are each explored exhaustively under SC and under x86-TSO (all flush timings); at quiescence the multiset handed out + still queued must equal what was inserted. The whole-library part runs generated programs on an 8-entry queue so that both re-centring paths, yield re-insertion, wake-ups and a declining custom steal function occur under all schedules with <=K deviations."},
 "C03": e1meta("An assembly probe keeps per-thread patterns in all callee-saved registers and a 2 KiB stack array across every kind of switching call (yield, both creation orders, join, mutex, barrier, cond, uncond) while 2-3 probe threads interleave under all schedules with <=K deviations; the runtime also checks the ABI stack alignment at every hook, including inside switch callbacks. The coverage matrix switch-kind x resumed-on-same/other-worker must be complete or the check reports itself vacuous; thorough repeats everything on a -O2 build of the library."),
 "C04": e1meta("All interleavings with <=K deviations of 2-3 contenders doing lock/trylock/timedlock/unlock sequences on one mutex; oracle: occupancy witness, every lock call returns (deadlock verdict), EBUSY only if the mutex was busy during the call, bystander progress on 1 worker."),
 "C05": e1meta("Bounded-buffer, gate (broadcast), turnstile and stray-signal programs under all schedules with <=K deviations; oracle: determinate final counters, mutex-held witness after every wait, no thread left on a sleep queue, no deadlock verdict."),
 "C06": e1meta("N<=3 participants x <=3 rounds under all schedules with <=K deviations; oracle: arrivals == N when anybody passes, exactly one serial indicator per round, everybody returns, count word back to 0."),
 "C07": e1meta("22 creation orders of <=3 decrementers and <=2 waiters plus a late waiter under all schedules with <=K deviations; oracle: wait returns only after N decrements began, all waiters released, nobody left queued."),
 "C08": e1meta("Documented SPSC protocol over one uncondition variable, 1-3 hand-offs, under all schedules with <=K deviations; oracle: values arrive in order exactly once, a waiter never resumes without its signal, slot empty at the end."),
 "C09": e1meta("Single-slot mailbox over myth_felock with 1-2 producers/consumers and a plain lock/unlock observer under all schedules with <=K deviations; oracle: multiset consumed == produced, status under the lock equals the waited-for value, exclusivity witness."),
 "C12": e1meta("Create/join/detach/try-join/timed-join programs with late joins, intervening creations and five stack sizes under all schedules with <=K deviations; an ownership ledger fed by the allocation/release hooks flags hand-out of something owned, double release, release of a stack the releasing worker still runs on, overlapping live stacks, and poisons released stacks/records so late legitimate-looking uses fail deterministically."),
 "C13": e1meta("Every history of <=2/3 create/reap cycles over five reap modes under all schedules with <=K deviations; oracle: at quiescence every record and stack handed out has been released exactly once, no fresh allocation after the first cycle on one worker, try-join busy only before the target finished, timed-join gives up only after its (virtual) deadline, detach leaves the target's stack data intact."),
 "C20": {"engine": "E1 mythmc + E3 seqmc", "technique": E1_TECH + "; plus bounded exhaustive input enumeration against 128-bit reference arithmetic for the timespec helpers",
         "note": E1_NOTE + "; the clock seam in hr_gettime makes time an environment answer (default +1 us per read, deviation +1 s)",
         "text": "Sleep, timed-lock and timed-join programs under all schedules with <=K deviations where every clock read is a decision of the explorer; oracle: zero return of a sleep only after the requested (virtual) duration, timeout only with now > deadline, success whenever the mutex was free / the thread had finished at the first attempt, sibling progress during a sleep. Arithmetic helpers and argument validation are enumerated over all boundary pairs."},
 "C14": e1meta("1-3 concurrent callers plus a late call with four kinds of init routine under all schedules with <=K deviations; oracle: init count == 1, completed flag visible to every caller on return."),
}
NOT_APPLICABLE = {}
ENGINES = [
 {"name": "E2 unitmc", "path": "engine/unitmc", "serves_properties": ["C02", "C06", "C10"],
  "kind_free_text": "explicit-state model checker for real code units: harness TU compiled with -fsanitize=thread instrumentation only, own __tsan_* callbacks make every access a transition; SC and x86-TSO (store buffers) machines; DFS with snapshots and visited set"},
 {"name": "E3 seqmc", "path": "engine/seqmc", "serves_properties": ["C10", "C11", "C15", "C17", "C18", "C19", "C20"],
  "kind_free_text": "bounded exhaustive enumeration of operation sequences / inputs / environment answers against reference models, real functions #included into unit harnesses"},
 {"name": "E1 mythmc", "path": "engine/mythmc", "serves_properties": ["C01", "C02", "C03", "C20", "C04", "C05", "C06", "C07", "C08", "C09", "C12", "C13", "C14"],
  "kind_free_text": "deviation-bounded stateless model checker: token-passing scheduler behind the MYTH_VERIF hooks of the real library, explorer forking one child per schedule"},
]
NOTES = ("./check <id> --tier quick|thorough builds the library from /repo's working tree with -DMYTH_VERIF, runs the components listed in engine/registry.py and writes evidence/<id>.json. "
         "Exit 2 means the check itself failed (build error, replay divergence, vacuous coverage) and is never a VIOLATION.")
