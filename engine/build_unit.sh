#!/bin/bash
# build_unit.sh NAME SRC [lib cflags...] : unit/E3 harness linked with the plain library objects (no MYTH_VERIF unless given)
set -e
cd "$(dirname "$0")/.."
name=$1; src=$2; shift 2
out=build/$name
mkdir -p $out
R=${REPO:-/repo}
LIBFLAGS=("$@"); [ ${#LIBFLAGS[@]} -eq 0 ] && LIBFLAGS=(-O0 -g)
engine/build_lib.sh $out/lib "${LIBFLAGS[@]}"
for x in ${UNIT_EXCLUDE}; do rm -f $out/lib/$x.o; done
${UNIT_CC:-gcc} ${UNIT_CFLAGS:--O0 -g} -w -D_GNU_SOURCE -D_XOPEN_SOURCE -DMYTH_WRAP=MYTH_WRAP_VANILLA -I$R/include -I$R/src -Iengine/fallback -I$R/src -Iengine/fallback/profiler -Iengine/seqmc -Iharness $src -o $out/$name $out/lib/*.o -lpthread -ldl ${UNIT_LIBS}
