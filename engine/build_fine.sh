#!/bin/bash
# build_fine.sh NAME HARNESS.c : E1 harness in "every access is a scheduling point" mode (library compiled with
# -fsanitize=thread instrumentation only; callbacks in engine/mythmc/fine.c)
set -e
cd "$(dirname "$0")/.."
name=$1; src=$2; shift 2
out=build/$name
mkdir -p $out
R=${REPO:-/repo}
engine/build_lib.sh $out/lib -O0 -g -fsanitize=thread -DMYTH_VERIF ${EXTRA_LIB_DEFS}
gcc -O1 -g -fno-omit-frame-pointer -w -I$R/include -I$R/src -Iengine/fallback -Iengine/mythmc -c engine/mythmc/mythv.c -o $out/mythv.o
gcc -O1 -g -fno-omit-frame-pointer -w -I$R/include -I$R/src -Iengine/fallback -Iengine/mythmc -c engine/mythmc/fine.c -o $out/fine.o
gcc -O0 -g -w -D_GNU_SOURCE -D_XOPEN_SOURCE -I$R/include -I$R/src -Iengine/fallback -c engine/mythmc/mythv_lib.c -o $out/mythv_lib.o
gcc -O1 -g -w -Iengine/mythmc -c engine/mythmc/explore.c -o $out/explore.o
gcc -O0 -g -w -I$R/include -I$R/src -Iengine/fallback -Iengine/mythmc -Iharness ${HARNESS_FLAGS} -c $src -o $out/harness.o
gcc -o $out/$name $out/harness.o $out/mythv.o $out/fine.o $out/mythv_lib.o $out/explore.o $out/lib/*.o -lpthread -ldl
