#!/bin/bash
# build_e1.sh NAME HARNESS.c [lib cflags...] : build an E1 harness binary into build/NAME/NAME
set -e
cd "$(dirname "$0")/.."
name=$1; src=$2; shift 2
out=build/$name
mkdir -p $out
LIBFLAGS=("$@"); [ ${#LIBFLAGS[@]} -eq 0 ] && LIBFLAGS=(-O0 -g)
engine/build_lib.sh $out/lib "${LIBFLAGS[@]}" -DMYTH_VERIF ${EXTRA_LIB_DEFS}
gcc -O1 -g -fno-omit-frame-pointer -w -I${REPO:-/repo}/include -I${REPO:-/repo}/src -Iengine/fallback -Iengine/mythmc -c engine/mythmc/mythv.c -o $out/mythv.o
gcc -O0 -g -w -D_GNU_SOURCE -D_XOPEN_SOURCE -I${REPO:-/repo}/include -I${REPO:-/repo}/src -Iengine/fallback -c engine/mythmc/mythv_lib.c -o $out/mythv_lib.o
gcc -O1 -g -w -Iengine/mythmc -c engine/mythmc/explore.c -o $out/explore.o
case "$src" in
  *.cc|*.cpp) g++ -O0 -g -w -I${REPO:-/repo}/include -I${REPO:-/repo}/src -Iengine/fallback -Iengine/mythmc -Iharness ${HARNESS_FLAGS} -c $src -o $out/harness.o
       g++ -o $out/$name $out/harness.o $out/mythv.o $out/mythv_lib.o $out/explore.o $out/lib/*.o ${HARNESS_EXTRA_OBJS} -lpthread -ldl ;;
  *) gcc -O0 -g -w -I${REPO:-/repo}/include -I${REPO:-/repo}/src -Iengine/fallback -Iengine/mythmc -Iharness ${HARNESS_FLAGS} -c $src -o $out/harness.o
     gcc -o $out/$name $out/harness.o $out/mythv.o $out/mythv_lib.o $out/explore.o $out/lib/*.o ${HARNESS_EXTRA_OBJS} -lpthread -ldl ;;
esac
