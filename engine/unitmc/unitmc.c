/* unitmc.c --- E2 runtime and explorer (see unitmc.h).  NOT compiled with -fsanitize=thread. */
#define _GNU_SOURCE
#include <stdio.h>
#include <stdlib.h>
#include <string.h>
#include <stdarg.h>
#include <unistd.h>
#include <time.h>
#include "unitmc.h"

#define STK        32768
#define REGION_MAX 32768
#define SB_MAX     48
#define NOTES_MAX  24

enum { S_READY = 0, S_ACCESS, S_ATOMIC, S_FENCE, S_SPIN, S_DONE };

typedef struct { uint32_t off; uint32_t sz; uint64_t val; } sbent_t;

typedef struct {
  void * sp;
  int status;
  int nnotes;
  int sb_n;
  int pend; uint32_t pend_off, pend_sz;
  uint32_t spin_off, spin_sz; uint64_t spin_snap;
  long notes[NOTES_MAX];
  sbent_t sb[SB_MAX];
} meta_t;

static struct {
  meta_t M[U2_MAXP];
  char stack[U2_MAXP][STK] __attribute__((aligned(64)));
  char global[REGION_MAX] __attribute__((aligned(64)));
} A;
static char priv[U2_MAXP][REGION_MAX] __attribute__((aligned(64)));

static const u2_config_t * CFG;
static int MM;                 /* memory model */
static int cur = -1;           /* participant currently running, -1 = explorer */
static void * explorer_sp;
static u2_result_t * RES;
static int logging;            /* counterexample replay: describe each transition */
static char * logp; static size_t logleft;

static void lg(const char * fmt, ...) {
  if (!logging || logleft < 2) return;
  va_list ap; va_start(ap, fmt); int n = vsnprintf(logp, logleft, fmt, ap); va_end(ap);
  if (n < 0) return; if ((size_t)n >= logleft) n = logleft - 1;
  logp += n; logleft -= n;
}

/* ------------------------------------------------------------------ coroutine switch */
void u2_swap(void ** save_sp, void * new_sp);
__asm__(".text\n.globl u2_swap\n.type u2_swap,@function\nu2_swap:\n"
	"  push %rbp\n  push %rbx\n  push %r12\n  push %r13\n  push %r14\n  push %r15\n"
	"  mov %rsp, (%rdi)\n  mov %rsi, %rsp\n"
	"  pop %r15\n  pop %r14\n  pop %r13\n  pop %r12\n  pop %rbx\n  pop %rbp\n  ret\n"
	".size u2_swap,.-u2_swap\n");

static void yield_to_explorer(int status) {
  int me = cur;
  A.M[me].status = status;
  cur = -1;
  u2_swap(&A.M[me].sp, explorer_sp);
  /* resumed */
}

/* ------------------------------------------------------------------ pointer canonicalisation */
static uint64_t to_canon(int p, uint64_t v) {   /* value as stored by p -> value relative to the global image */
  uint64_t b = (uint64_t)priv[p];
  if (v >= b && v < b + CFG->region_size) return v - b + (uint64_t)A.global;
  return v;
}
static uint64_t from_canon(int p, uint64_t v) {
  uint64_t b = (uint64_t)A.global;
  if (v >= b && v < b + CFG->region_size) return v - b + (uint64_t)priv[p];
  return v;
}
static uint64_t rd(const void * a, uint32_t sz) { uint64_t v = 0; memcpy(&v, a, sz > 8 ? 8 : sz); return v; }
static void wr(void * a, uint32_t sz, uint64_t v) { memcpy(a, &v, sz > 8 ? 8 : sz); }

void u2_fail(const char * fmt, ...) {
  char buf[400];
  va_list ap; va_start(ap, fmt); vsnprintf(buf, sizeof buf, fmt, ap); va_end(ap);
  if (!RES->violation) { RES->violation = 3; snprintf(RES->msg, sizeof RES->msg, "%s", buf); }
  if (cur >= 0) { int me = cur; A.M[me].status = S_DONE; cur = -1; u2_swap(&A.M[me].sp, explorer_sp); }
  fprintf(stderr, "u2_fail outside a participant: %s\n", buf);
  _exit(3);
}

static int region_off(const void * addr, uint32_t sz, uint32_t * off) {
  if (cur < 0) return 0;
  uintptr_t a = (uintptr_t)addr, b = (uintptr_t)priv[cur];
  if (a >= b && a + sz <= b + CFG->region_size) { *off = (uint32_t)(a - b); return 1; }
  /* a participant must never reach into the global image or somebody else's copy */
  uintptr_t g = (uintptr_t)A.global;
  if (a >= g && a < g + CFG->region_size) u2_fail("engine: participant %d accessed the global image directly (unrebased pointer)", cur);
  for (int q = 0; q < CFG->nparticipants; q++) { uintptr_t c = (uintptr_t)priv[q]; if (q != cur && a >= c && a < c + CFG->region_size) u2_fail("engine: participant %d accessed the private copy of %d", cur, q); }
  return 0;
}

/* value of location as seen by p: newest own buffered store, else the global image */
static uint64_t view(int p, uint32_t off, uint32_t sz) {
  meta_t * m = &A.M[p];
  for (int i = m->sb_n - 1; i >= 0; i--) {
    sbent_t * e = &m->sb[i];
    if (e->off == off && e->sz == sz) return e->val;
    if (e->off < off + sz && off < e->off + e->sz) u2_fail("engine: partially overlapping accesses at offset %u (sizes %u and %u)", off, sz, e->sz);
  }
  return rd(A.global + off, sz);
}

static void flush_one(int p) {
  meta_t * m = &A.M[p];
  sbent_t e = m->sb[0];
  memmove(&m->sb[0], &m->sb[1], sizeof(sbent_t) * (m->sb_n - 1)); m->sb_n--;
  wr(A.global + e.off, e.sz, e.val);
  lg("    flush p%d: [%u]%u <- %#lx\n", p, e.off, e.sz, (unsigned long)e.val);
}

static void commit_pending(void) {
  meta_t * m = &A.M[cur];
  if (!m->pend) return;
  m->pend = 0;
  uint32_t sz = m->pend_sz > 8 ? 8 : m->pend_sz;
  uint64_t v = rd(priv[cur] + m->pend_off, sz);
  if (sz == 8) v = to_canon(cur, v);
  if (m->sb_n >= SB_MAX) u2_fail("engine: store buffer overflow");
  sbent_t * e = &m->sb[m->sb_n++]; e->off = m->pend_off; e->sz = sz; e->val = v;
  lg("    p%d store [%u]%u = %#lx%s\n", cur, e->off, e->sz, (unsigned long)v, MM == U2_SC ? "" : " (buffered)");
  if (m->pend_sz > 8) {   /* 16-byte store: second half */
    uint64_t v2 = to_canon(cur, rd(priv[cur] + m->pend_off + 8, 8));
    sbent_t * e2 = &m->sb[m->sb_n++]; e2->off = m->pend_off + 8; e2->sz = 8; e2->val = v2;
  }
  if (MM == U2_SC) while (m->sb_n) flush_one(cur);
}

/* ------------------------------------------------------------------ access callbacks (called by instrumented code BEFORE the access) */
static void on_load(void * addr, uint32_t sz) {
  uint32_t off;
  if (!region_off(addr, sz, &off)) return;
  commit_pending();
  yield_to_explorer(S_ACCESS);
  for (uint32_t k = 0; k < sz; k += 8) {
    uint32_t s = sz - k > 8 ? 8 : sz - k;
    uint64_t v = view(cur, off + k, s);
    if (s == 8) v = from_canon(cur, v);
    wr(priv[cur] + off + k, s, v);
    lg("    p%d load  [%u]%u -> %#lx\n", cur, off + k, s, (unsigned long)v);
  }
}
static void on_store(void * addr, uint32_t sz) {
  uint32_t off;
  if (!region_off(addr, sz, &off)) return;
  commit_pending();
  yield_to_explorer(S_ACCESS);
  meta_t * m = &A.M[cur];
  m->pend = 1; m->pend_off = off; m->pend_sz = sz;
}

void __tsan_init(void) {}
void __tsan_func_entry(void * pc) { (void)pc; }
void __tsan_func_exit(void) {}
void __tsan_read1(void * a) { on_load(a, 1); }   void __tsan_read2(void * a) { on_load(a, 2); }
void __tsan_read4(void * a) { on_load(a, 4); }   void __tsan_read8(void * a) { on_load(a, 8); }
void __tsan_read16(void * a) { on_load(a, 16); }
void __tsan_write1(void * a) { on_store(a, 1); } void __tsan_write2(void * a) { on_store(a, 2); }
void __tsan_write4(void * a) { on_store(a, 4); } void __tsan_write8(void * a) { on_store(a, 8); }
void __tsan_write16(void * a) { on_store(a, 16); }
void __tsan_unaligned_read2(void * a) { on_load(a, 2); } void __tsan_unaligned_read4(void * a) { on_load(a, 4); }
void __tsan_unaligned_read8(void * a) { on_load(a, 8); } void __tsan_unaligned_write2(void * a) { on_store(a, 2); }
void __tsan_unaligned_write4(void * a) { on_store(a, 4); } void __tsan_unaligned_write8(void * a) { on_store(a, 8); }
void __tsan_volatile_read4(void * a) { on_load(a, 4); } void __tsan_volatile_read8(void * a) { on_load(a, 8); }
void __tsan_volatile_write4(void * a) { on_store(a, 4); } void __tsan_volatile_write8(void * a) { on_store(a, 8); }
void __tsan_vptr_update(void ** a, void * b) { (void)a; (void)b; }
void __tsan_vptr_read(void ** a) { (void)a; }
void __tsan_read_range(void * a, unsigned long n) { uint32_t off; if (cur < 0 || n == 0 || !region_off(a, 1, &off)) return; u2_fail("engine: range read of shared data not modelled"); }
void __tsan_write_range(void * a, unsigned long n) { uint32_t off; if (cur < 0 || n == 0 || !region_off(a, 1, &off)) return; u2_fail("engine: range write of shared data not modelled"); }

/* atomics: x86 locked instructions -- the store buffer must be empty, the operation acts on the global image */
static uint64_t atomic_rmw(void * addr, uint32_t sz, int kind, uint64_t expect, uint64_t operand, int * success) {
  uint32_t off;
  if (!region_off(addr, sz, &off)) {
    /* not shared unit data: plain operation */
    uint64_t old = rd(addr, sz);
    switch (kind) { case 0: if (old == expect) { wr(addr, sz, operand); *success = 1; } else *success = 0; break;
    case 1: wr(addr, sz, old + operand); break; case 2: wr(addr, sz, old - operand); break; case 3: wr(addr, sz, operand); break; default: break; }
    return old;
  }
  commit_pending();
  yield_to_explorer(S_ATOMIC);       /* enabled only once the own store buffer has drained */
  uint64_t old = rd(A.global + off, sz), neu = old;
  if (sz == 8) { expect = to_canon(cur, expect); if (kind == 0 || kind == 3) operand = to_canon(cur, operand); }
  switch (kind) {
  case 0: if (old == expect) { neu = operand; *success = 1; } else *success = 0; break;
  case 1: neu = old + operand; break;
  case 2: neu = old - operand; break;
  case 3: neu = operand; break;
  case 4: break;  /* load */
  }
  wr(A.global + off, sz, neu);
  uint64_t oldp = sz == 8 ? from_canon(cur, old) : old, neup = sz == 8 ? from_canon(cur, neu) : neu;
  wr(priv[cur] + off, sz, neup);
  lg("    p%d atomic[%u]%u kind=%d old=%#lx new=%#lx\n", cur, off, sz, kind, (unsigned long)old, (unsigned long)neu);
  return oldp;
}
#define ATOMICS(N, T, SZ) \
  int __tsan_atomic##N##_compare_exchange_strong(volatile T * a, T * c, T v, int mo, int fmo) { (void)mo; (void)fmo; int ok = 0; \
    T old = (T)atomic_rmw((void *)a, SZ, 0, (uint64_t)*c, (uint64_t)v, &ok); if (!ok) *c = old; return ok; } \
  int __tsan_atomic##N##_compare_exchange_weak(volatile T * a, T * c, T v, int mo, int fmo) { return __tsan_atomic##N##_compare_exchange_strong(a, c, v, mo, fmo); } \
  T __tsan_atomic##N##_compare_exchange_val(volatile T * a, T c, T v, int mo, int fmo) { (void)mo; (void)fmo; int ok = 0; return (T)atomic_rmw((void *)a, SZ, 0, (uint64_t)c, (uint64_t)v, &ok); } \
  T __tsan_atomic##N##_fetch_add(volatile T * a, T v, int mo) { (void)mo; int ok; return (T)atomic_rmw((void *)a, SZ, 1, 0, (uint64_t)v, &ok); } \
  T __tsan_atomic##N##_fetch_sub(volatile T * a, T v, int mo) { (void)mo; int ok; return (T)atomic_rmw((void *)a, SZ, 2, 0, (uint64_t)v, &ok); } \
  T __tsan_atomic##N##_exchange(volatile T * a, T v, int mo) { (void)mo; int ok; return (T)atomic_rmw((void *)a, SZ, 3, 0, (uint64_t)v, &ok); } \
  T __tsan_atomic##N##_load(const volatile T * a, int mo) { (void)mo; int ok; return (T)atomic_rmw((void *)a, SZ, 4, 0, 0, &ok); } \
  void __tsan_atomic##N##_store(volatile T * a, T v, int mo) { (void)mo; int ok; atomic_rmw((void *)a, SZ, 3, 0, (uint64_t)v, &ok); }
ATOMICS(8, uint8_t, 1) ATOMICS(16, uint16_t, 2) ATOMICS(32, uint32_t, 4) ATOMICS(64, uint64_t, 8)
void __tsan_atomic_thread_fence(int mo) { (void)mo; if (cur >= 0) { commit_pending(); if (A.M[cur].sb_n) yield_to_explorer(S_FENCE); } }
void __tsan_atomic_signal_fence(int mo) { (void)mo; }

/* ------------------------------------------------------------------ MYTH_VERIF hooks used by the units */
void mythv_point(int id, const volatile void * a, size_t sz) { (void)id; (void)a; (void)sz; }
void mythv_yspin(int id, const volatile void * a, size_t sz) { (void)id; (void)a; (void)sz; }
void mythv_idle(int id, int rank) { (void)id; (void)rank; }
int  mythv_choose(int id, int n) { (void)id; (void)n; return -1; }
int  mythv_clock(void * ts) { (void)ts; return 0; }
void mythv_alloc(int k, void * p, size_t sz, int r) { (void)k; (void)p; (void)sz; (void)r; }
void mythv_free(int k, void * p, size_t sz, int r) { (void)k; (void)p; (void)sz; (void)r; }
void mythv_worker(int r) { (void)r; }
void mythv_leave(int r) { (void)r; }
void mythv_fence(int kind, int drains) {
  (void)kind;
  if (cur < 0) return;
  commit_pending();
  lg("    p%d fence kind=%d drains=%d (buffered %d)\n", cur, kind, drains, A.M[cur].sb_n);
  if (drains && A.M[cur].sb_n) yield_to_explorer(S_FENCE);
}
void mythv_spin(int id, const volatile void * addr, size_t sz) {
  (void)id;
  uint32_t off;
  if (cur < 0 || !region_off((const void *)addr, (uint32_t)sz, &off)) return;
  commit_pending();
  meta_t * m = &A.M[cur];
  m->spin_off = off; m->spin_sz = (uint32_t)sz; m->spin_snap = view(cur, off, (uint32_t)sz);
  yield_to_explorer(S_SPIN);
  m = &A.M[cur]; m->spin_off = m->spin_sz = 0; m->spin_snap = 0;
}

void u2_note(int me, long value) { meta_t * m = &A.M[me]; if (m->nnotes < NOTES_MAX) m->notes[m->nnotes++] = value; else u2_fail("engine: too many notes"); }
long u2_noted(int p, int i) { return A.M[p].notes[i]; }
int u2_nnoted(int p) { return A.M[p].nnotes; }

void __assert_fail(const char * e, const char * f, unsigned l, const char * fn) {
  if (cur >= 0) u2_fail("assertion `%s' failed in %s (%s:%u)", e, fn, f, l);
  fprintf(stderr, "assert %s %s:%u\n", e, f, l); _exit(4);
}
void abort(void) {
  if (cur >= 0) u2_fail("the unit called abort()");
  _exit(134);
}

/* ------------------------------------------------------------------ coroutines */
static void co_entry(void) {
  int me = cur;
  CFG->body[me](priv[me], me);
  me = cur;
  commit_pending();
  for (;;) yield_to_explorer(S_DONE);
}

static void co_init(int p) {
  meta_t * m = &A.M[p]; memset(m, 0, sizeof *m);
  uintptr_t top = ((uintptr_t)A.stack[p] + STK) & ~(uintptr_t)15;
  uint64_t * s = (uint64_t *)top;
  *--s = 0;                       /* fake return address of co_entry: keeps the ABI alignment */
  *--s = (uint64_t)co_entry;      /* `ret` of u2_swap jumps here */
  for (int i = 0; i < 6; i++) *--s = 0;
  m->sp = s; m->status = S_READY;
}

static int enabled(int t) {
  int np = CFG->nparticipants;
  if (t < np) {
    meta_t * m = &A.M[t];
    switch (m->status) {
    case S_DONE: return 0;
    case S_ATOMIC: case S_FENCE: return m->sb_n == 0;
    case S_SPIN: return view(t, m->spin_off, m->spin_sz) != m->spin_snap;
    default: return 1;
    }
  }
  return A.M[t - np].sb_n > 0;
}

static void apply(int t) {
  int np = CFG->nparticipants;
  if (t >= np) { lg("  flush p%d\n", t - np); flush_one(t - np); return; }
  lg("  run p%d\n", t);
  if (CFG->bind) CFG->bind(priv[t], t);
  cur = t;
  u2_swap(&explorer_sp, A.M[t].sp);
  cur = -1;
}

/* ------------------------------------------------------------------ packed snapshots + hashing */
static size_t pack(char * buf) {
  char * q = buf;
  int np = CFG->nparticipants;
  for (int p = 0; p < np; p++) {
    meta_t * m = &A.M[p];
    /* canonical: fixed header, then only the used part of the notes and of the store buffer */
    memcpy(q, m, offsetof(meta_t, notes)); q += offsetof(meta_t, notes);
    memcpy(q, m->notes, sizeof(long) * m->nnotes); q += sizeof(long) * m->nnotes;
    memcpy(q, m->sb, sizeof(sbent_t) * m->sb_n); q += sizeof(sbent_t) * m->sb_n;
    size_t live = (size_t)(A.stack[p] + STK - (char *)m->sp);
    memcpy(q, &live, sizeof live); q += sizeof live;
    memcpy(q, m->sp, live); q += live;
  }
  memcpy(q, A.global, CFG->region_size); q += CFG->region_size;
  return q - buf;
}
static void unpack(const char * buf) {
  const char * q = buf;
  int np = CFG->nparticipants;
  for (int p = 0; p < np; p++) {
    meta_t * m = &A.M[p];
    memcpy(m, q, offsetof(meta_t, notes)); q += offsetof(meta_t, notes);
    memcpy(m->notes, q, sizeof(long) * m->nnotes); q += sizeof(long) * m->nnotes;
    memcpy(m->sb, q, sizeof(sbent_t) * m->sb_n); q += sizeof(sbent_t) * m->sb_n;
    size_t live; memcpy(&live, q, sizeof live); q += sizeof live;
    memcpy(m->sp, q, live); q += live;
  }
  memcpy(A.global, q, CFG->region_size);
}
static uint64_t hash_buf(const char * b, size_t n) {
  uint64_t h = 0x9E3779B97F4A7C15ULL;
  size_t i = 0;
  for (; i + 8 <= n; i += 8) { uint64_t v; memcpy(&v, b + i, 8); h = (h ^ v) * 0xFF51AFD7ED558CCDULL; h ^= h >> 29; }
  for (; i < n; i++) { h = (h ^ (unsigned char)b[i]) * 0x100000001B3ULL; }
  h ^= h >> 32; h *= 0xC4CEB9FE1A85EC53ULL; h ^= h >> 29;
  return h ? h : 1;
}

static uint64_t * vis; static size_t vis_cap, vis_n;
static int vis_insert(uint64_t h) {
  if (vis_n * 2 >= vis_cap) {
    size_t nc = vis_cap ? vis_cap * 2 : (1 << 16);
    uint64_t * nv = calloc(nc, sizeof(uint64_t));
    for (size_t i = 0; i < vis_cap; i++) if (vis[i]) { size_t j = vis[i] & (nc - 1); while (nv[j]) j = (j + 1) & (nc - 1); nv[j] = vis[i]; }
    free(vis); vis = nv; vis_cap = nc;
  }
  size_t j = h & (vis_cap - 1);
  while (vis[j]) { if (vis[j] == h) return 0; j = (j + 1) & (vis_cap - 1); }
  vis[j] = h; vis_n++;
  return 1;
}

typedef struct { char * snap; size_t len; int next; int via; } frame_t;

static void initial_state(void) {
  memset(&A, 0, sizeof A);
  CFG->init(A.global);
  for (int p = 0; p < CFG->nparticipants; p++) {
    /* every copy is built by the same init routine; intra-region pointers then point into the copy itself */
    memset(priv[p], 0, CFG->region_size);
    CFG->init(priv[p]);
    co_init(p);
  }
}

static void replay_path(int * path, int n) {
  initial_state();
  logging = 1; logp = RES->trace; logleft = sizeof RES->trace; RES->trace[0] = 0;
  for (int i = 0; i < n; i++) { if (!enabled(path[i])) { lg("  (replay: transition %d not enabled)\n", path[i]); break; } apply(path[i]); }
  logging = 0;
}

void u2_explore(const u2_config_t * cfg, int memory_model, long state_cap, u2_result_t * out) {
  CFG = cfg; MM = memory_model; RES = out; memset(out, 0, sizeof *out);
  if (cfg->region_size > REGION_MAX || cfg->nparticipants > U2_MAXP) { out->violation = 4; snprintf(out->msg, sizeof out->msg, "configuration too large"); return; }
  free(vis); vis = NULL; vis_cap = vis_n = 0;
  initial_state();
  int np = cfg->nparticipants, nt = MM == U2_TSO ? 2 * np : np;
  size_t maxsnap = (sizeof(meta_t) + STK + 64) * np + cfg->region_size;
  char * tmp = malloc(maxsnap);
  int cap = 4096; frame_t * st = malloc(sizeof(frame_t) * cap); int depth = 0;
  size_t len = pack(tmp);
  vis_insert(hash_buf(tmp, len));
  st[0].snap = malloc(len); memcpy(st[0].snap, tmp, len); st[0].len = len; st[0].next = 0; st[0].via = -1; depth = 1;
  out->states = 1;
  while (depth > 0) {
    frame_t * f = &st[depth - 1];
    if (f->next >= nt) { free(f->snap); depth--; continue; }
    int t = f->next++;
    unpack(f->snap);
    if (!enabled(t)) continue;
    apply(t);
    out->transitions++;
    if (out->violation) {
      /* assertion / abort / u2_fail inside the unit */
      int path[4096], n = 0; for (int i = 1; i < depth && n < 4095; i++) path[n++] = st[i].via; path[n++] = t;
      char keep[400]; strcpy(keep, out->msg); int v = out->violation;
      replay_path(path, n); out->violation = v; strcpy(out->msg, keep);
      break;
    }
    /* terminal? */
    int done = 1; for (int p = 0; p < np; p++) if (A.M[p].status != S_DONE || A.M[p].sb_n) done = 0;
    len = pack(tmp);
    uint64_t h = hash_buf(tmp, len);
    if (!vis_insert(h)) continue;
    out->states++;
    if (depth + 1 > out->max_depth) out->max_depth = depth + 1;
    if (done) {
      out->terminals++;
      const char * m = cfg->oracle ? cfg->oracle(A.global) : NULL;
      if (m) {
	out->violation = 1; snprintf(out->msg, sizeof out->msg, "%s", m);
	int path[4096], n = 0; for (int i = 1; i < depth && n < 4095; i++) path[n++] = st[i].via; path[n++] = t;
	replay_path(path, n);
	break;
      }
      continue;
    }
    /* deadlock: nothing enabled although not everybody finished */
    int any = 0; for (int k = 0; k < nt; k++) if (enabled(k)) { any = 1; break; }
    if (!any) {
      out->violation = 2; snprintf(out->msg, sizeof out->msg, "no participant can proceed (a lock is never released / a wait never ends)");
      int path[4096], n = 0; for (int i = 1; i < depth && n < 4095; i++) path[n++] = st[i].via; path[n++] = t;
      replay_path(path, n);
      break;
    }
    if (state_cap && out->states >= state_cap) { out->violation = 4; snprintf(out->msg, sizeof out->msg, "state cap %ld reached", state_cap); break; }
    if (depth >= cap) { cap *= 2; st = realloc(st, sizeof(frame_t) * cap); }
    frame_t * nf = &st[depth++];
    nf->snap = malloc(len); memcpy(nf->snap, tmp, len); nf->len = len; nf->next = 0; nf->via = t;
  }
  while (depth > 0) { free(st[--depth].snap); }
  free(st); free(tmp);
}
