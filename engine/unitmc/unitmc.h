/* unitmc.h --- E2: explicit-state model checking of real code units at memory-access granularity,
 * under sequential consistency and under x86-TSO store buffering.
 *
 * The unit is #included into a harness translation unit compiled with -fsanitize=thread (instrumentation
 * only, no TSan runtime) and -DMYTH_VERIF -DMYTH_VERIF_NO_POINTS; unitmc.c supplies the __tsan_* entry points,
 * so every load, store and atomic of the real code that touches the shared region is a transition.
 */
#pragma once
#include <stddef.h>
#include <stdint.h>

#define U2_MAXP 4          /* participants */
#define U2_MAXOPS 8

typedef struct {
  const char * name;
  size_t region_size;                 /* bytes of shared unit data (each participant runs on a private copy) */
  void (*init)(void * region);        /* build the initial content inside the given copy (called once per copy) */
  int nparticipants;
  void (*body[U2_MAXP])(void * region, int me);   /* what participant i executes (real operations on `region`) */
  /* called at quiescence (all participants finished, all store buffers empty) on the global image;
     return NULL if fine, else a message */
  const char * (*oracle)(void * region);
  /* optional: called before a participant runs, e.g. to point library globals at its copy */
  void (*bind)(void * region, int me);
} u2_config_t;

typedef struct {
  long states, transitions, terminals, max_depth;
  int violation;               /* 0 none, 1 oracle, 2 deadlock, 3 assert/abort in the unit, 4 state cap hit */
  char msg[400];
  char trace[8000];            /* human-readable counterexample */
} u2_result_t;

enum { U2_SC = 0, U2_TSO = 1 };

/* explore every interleaving (and, for TSO, every flush timing) of the configuration */
void u2_explore(const u2_config_t * cfg, int memory_model, long state_cap, u2_result_t * out);

/* harness-side helpers (callable from participant bodies) */
void u2_note(int me, long value);                 /* record an operation result (kept in the state) */
long u2_noted(int p, int i); int u2_nnoted(int p);
void u2_fail(const char * fmt, ...) __attribute__((noreturn));
