#!/bin/bash
# build_e1_wrap.sh NAME HARNESS.c ld|dl : E1 harness over the pthread-wrapping builds of the library
set -e
cd "$(dirname "$0")/.."
name=$1; src=$2; mode=$3
out=build/$name
mkdir -p $out
R=${REPO:-/repo}
if [ "$mode" = ld ]; then W=MYTH_WRAP_LD; else W=MYTH_WRAP_DL; fi
WRAP=$W engine/build_lib.sh $out/lib -O0 -g -DMYTH_VERIF
gcc -O1 -g -fno-omit-frame-pointer -w -I$R/include -I$R/src -Iengine/fallback -Iengine/mythmc -c engine/mythmc/mythv.c -o $out/mythv.o
gcc -O0 -g -w -D_GNU_SOURCE -D_XOPEN_SOURCE -I$R/include -I$R/src -Iengine/fallback -c engine/mythmc/mythv_lib.c -o $out/mythv_lib.o
gcc -O1 -g -w -Iengine/mythmc -c engine/mythmc/explore.c -o $out/explore.o
gcc -O0 -g -w -I$R/include -I$R/src -Iengine/fallback -Iengine/mythmc -Iharness -c $src -o $out/harness.o
if [ "$mode" = ld ]; then
  gcc -o $out/$name $out/harness.o $out/mythv.o $out/mythv_lib.o $out/explore.o $out/lib/*.o @$R/src/myth-ld.opts -lpthread -ldl
else
  gcc -o $out/$name $out/harness.o $out/mythv.o $out/mythv_lib.o $out/explore.o $out/lib/*.o -lpthread -ldl
fi
