#!/bin/bash
# build_e2_init.sh NAME : E2 harness for the once-control of library initialisation.  The three functions
#   myth_init_once_ctl_try_set, myth_init_once_ctl_wait, myth_init_ex_body are cut out of $REPO/src/myth_init.c (current working tree) as
#   they stand and compiled, instrumented, into the harness; only what they call is replaced (the real initialisation by a counter).
set -e
cd "$(dirname "$0")/.."
name=$1; out=build/$name; mkdir -p $out
R=${REPO:-/repo}
python3 - "$R/src/myth_init.c" "$out/init_unit.h" <<'PY'
import sys, re
src = open(sys.argv[1]).read().split('\n')
def find(pat, start=0):
    for i in range(start, len(src)):
        if re.match(pat, src[i]): return i
    return -1
a = find(r'^int\s+myth_init_once_ctl_try_set\s*\(')
b = find(r'^int\s+myth_init_ex_body\s*\(')
e = find(r'^}', b) if b >= 0 else -1
if a < 0 or b < 0 or e < 0 or a > b:
    open(sys.argv[2], 'w').write('#define INIT_UNIT_MISSING 1\n')
    sys.exit(0)
body = [l for l in src[a:e + 1] if not re.match(r'^\s*volatile\s+int\s+g_myth_init_state\b', l)]
open(sys.argv[2], 'w').write('/* cut out of src/myth_init.c lines %d-%d by engine/build_e2_init.sh */\n' % (a + 1, e + 1) + '\n'.join(body) + '\n')
PY
gcc -O1 -g -w -Iengine/unitmc -c engine/unitmc/unitmc.c -o $out/unitmc.o
gcc -O0 -g -w -fsanitize=thread -D_GNU_SOURCE -DMYTH_VERIF -DMYTH_VERIF_NO_POINTS -I$R/include -I$R/src -Iengine/fallback -Iengine/unitmc -Iengine/seqmc -Iharness -I$out \
    -c harness/c15_init_e2.c -o $out/harness.o
gcc -o $out/$name $out/harness.o $out/unitmc.o -lpthread -ldl
