/* seqmc.h --- E3: bookkeeping for bounded exhaustive enumerators (operation sequences / inputs / environment
 * answers against a reference model).  Every component writes the common statistics file read by ./check. */
#pragma once
#include <stdio.h>
#include <stdlib.h>
#include <string.h>
#include <stdarg.h>
#include <time.h>

#define SQ_MAXFOUND 40
#define SQ_MAXSAMPLE 8
static struct {
  const char * component, * engine, * property, * replay_dir, * self;
  long states, transitions, evaluations, distinct;
  int exhaustive, nfound, nsample, engine_error;
  char found_key[SQ_MAXFOUND][200], found_msg[SQ_MAXFOUND][400], found_replay[SQ_MAXFOUND][300];
  char sample[SQ_MAXSAMPLE][300];
  char detail[4000];
  double t0;
} SQ;

static double sq_now(void) { struct timespec ts; clock_gettime(CLOCK_MONOTONIC, &ts); return ts.tv_sec + ts.tv_nsec * 1e-9; }

static void sq_begin(const char * property, const char * component, const char * engine, const char * replay_dir, const char * self) {
  memset(&SQ, 0, sizeof SQ);
  SQ.property = property; SQ.component = component; SQ.engine = engine; SQ.replay_dir = replay_dir ? replay_dir : "replays"; SQ.self = self;
  SQ.exhaustive = 1; SQ.t0 = sq_now();
}
static void sq_jesc(FILE * f, const char * s) {
  for (; *s; s++) { if (*s == '"' || *s == '\\') fprintf(f, "\\%c", *s); else if ((unsigned char)*s < 32) fprintf(f, "\\u%04x", (unsigned char)*s); else fputc(*s, f); }
}
static void sq_sample(const char * fmt, ...) {
  if (SQ.nsample >= SQ_MAXSAMPLE) return;
  va_list ap; va_start(ap, fmt); vsnprintf(SQ.sample[SQ.nsample++], 300, fmt, ap); va_end(ap);
}
static void sq_detail(const char * fmt, ...) {
  size_t n = strlen(SQ.detail);
  va_list ap; va_start(ap, fmt); vsnprintf(SQ.detail + n, sizeof SQ.detail - n, fmt, ap); va_end(ap);
}
/* key: stable identification of the failing input / call site / history; replay_args: arguments that make this binary replay the case */
static void sq_found(const char * key, const char * replay_args, const char * fmt, ...) {
  if (SQ.nfound >= SQ_MAXFOUND) return;
  int i = SQ.nfound++;
  snprintf(SQ.found_key[i], 200, "%s", key);
  va_list ap; va_start(ap, fmt); vsnprintf(SQ.found_msg[i], 400, fmt, ap); va_end(ap);
  snprintf(SQ.found_replay[i], 300, "%s/%s-%s-%d.json", SQ.replay_dir, SQ.property, SQ.component, i);
  FILE * f = fopen(SQ.found_replay[i], "w");
  if (f) {
    fprintf(f, "{\"property\":\"%s\",\"component\":\"%s\",\"key\":\"", SQ.property, SQ.component); sq_jesc(f, key);
    fprintf(f, "\",\"message\":\""); sq_jesc(f, SQ.found_msg[i]);
    fprintf(f, "\",\"replay_cmd\":\""); sq_jesc(f, SQ.self); fprintf(f, " "); sq_jesc(f, replay_args ? replay_args : ""); fprintf(f, "\"}\n");
    fclose(f);
  }
}
/* wait for a forked case with a wall-clock limit; a child that does not finish is killed and reported as a hang
   (the library installs its own SIGALRM handler, so alarm() inside the child is no watchdog).
   returns 0 and fills *status, or -1 on timeout */
#include <sys/wait.h>
#include <signal.h>
static int sq_wait_child(pid_t pid, double timeout_s, int * status) {
  double tend = sq_now() + timeout_s;
  for (;;) {
    pid_t r = waitpid(pid, status, WNOHANG);
    if (r == pid) return 0;
    if (r < 0) { *status = 0; return 0; }
    if (sq_now() > tend) { kill(pid, SIGKILL); waitpid(pid, status, 0); return -1; }
    struct timespec ts = { 0, 2000000 }; nanosleep(&ts, NULL);
  }
}

static int sq_end(const char * statsfile) {
  FILE * f = fopen(statsfile, "w");
  if (!f) { perror(statsfile); return 2; }
  fprintf(f, "{\"component\":\"%s\",\"engine\":\"%s\",\"states\":%ld,\"transitions\":%ld,\"evaluations\":%ld,\"distinct_outcomes\":%ld,\"traces_validated_against_impl\":%ld,\"exhaustive\":%s,\"engine_error\":%s,\"wall_s\":%.2f,",
	  SQ.component, SQ.engine, SQ.states, SQ.transitions, SQ.evaluations, SQ.distinct, SQ.evaluations, SQ.exhaustive ? "true" : "false", SQ.engine_error ? "true" : "false", sq_now() - SQ.t0);
  fprintf(f, "\"detail\":\""); sq_jesc(f, SQ.detail); fprintf(f, "\",\"samples\":[");
  for (int i = 0; i < SQ.nsample; i++) { fprintf(f, "%s\"", i ? "," : ""); sq_jesc(f, SQ.sample[i]); fprintf(f, "\""); }
  fprintf(f, "],\"found\":[");
  for (int i = 0; i < SQ.nfound; i++) {
    fprintf(f, "%s{\"key\":\"", i ? "," : ""); sq_jesc(f, SQ.found_key[i]); fprintf(f, "\",\"msg\":\""); sq_jesc(f, SQ.found_msg[i]);
    fprintf(f, "\",\"replay\":\"%s\"}", SQ.found_replay[i]);
  }
  fprintf(f, "]}\n");
  fclose(f);
  printf("SUMMARY component=%s states=%ld transitions=%ld evaluations=%ld found=%d exhaustive=%d wall=%.1fs\n", SQ.component, SQ.states, SQ.transitions, SQ.evaluations, SQ.nfound, SQ.exhaustive, sq_now() - SQ.t0);
  if (SQ.engine_error) return 2;
  return SQ.nfound ? 1 : 0;
}
