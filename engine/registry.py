"""registry.py --- which components decide which property, and how each engine is built and run."""
import os, json, subprocess, time, glob

ROOT = os.path.dirname(os.path.dirname(os.path.abspath(__file__)))
REPO = os.environ.get("REPO", "/repo")
JOBS = int(os.environ.get("VERIF_JOBS", "16"))


class CheckError(Exception):
    pass


def sh(cmd, timeout=None, env=None, cwd=ROOT):
    e = dict(os.environ)
    if env:
        e.update(env)
    try:
        p = subprocess.run(cmd, shell=isinstance(cmd, str), cwd=cwd, env=e, stdout=subprocess.PIPE, stderr=subprocess.STDOUT,
                           timeout=timeout, text=True, errors="replace", start_new_session=True)
    except subprocess.TimeoutExpired as ex:
        return 124, "TIMEOUT after %s s: %s\n%s" % (timeout, cmd, (ex.stdout or "")[-2000:] if isinstance(ex.stdout, str) else "")
    return p.returncode, p.stdout


# ---------------------------------------------------------------------------------------------- E1
def e1(name, src, quick=None, thorough=None, libflags="-O0 -g", deadline=(240, 780), env=None, harness_flags="", require_pids=()):
    return {"kind": "e1", "name": name, "src": src, "libflags": libflags, "args": {"quick": quick or "", "thorough": thorough or ""},
            "deadline": {"quick": deadline[0], "thorough": deadline[1]}, "env": env or {}, "harness_flags": harness_flags, "require_pids": list(require_pids)}


def run_e1(pid, c, tier, seed):
    name = c["name"]
    env = dict(c["env"]); env["REPO"] = REPO
    if c["harness_flags"]:
        env["HARNESS_FLAGS"] = c["harness_flags"]
    rc, out = sh(c.get("build_cmd") or "engine/build_e1.sh %s %s %s" % (name, c["src"], c["libflags"]), env=env, timeout=600)
    if rc != 0:
        raise CheckError("build failed:\n" + out[-3000:])
    stats = "build/%s/stats.json" % name
    if os.path.exists(stats):
        os.unlink(stats)
    cmd = "build/%s/%s --tier %s --jobs %d --deadline %d --stats %s --replay-dir replays --seed %d %s" % (
        name, name, tier, JOBS, c["deadline"][tier], stats, seed, c["args"][tier])
    t0 = time.time()
    rc, out = sh(cmd, timeout=c["deadline"][tier] + 600)
    for line in out.splitlines():
        if line.startswith(("ENGINE-ERROR", "VACUOUS", "SUMMARY")):
            print("  [%s] %s" % (name, line))
    if not os.path.exists(stats):
        raise CheckError("explorer produced no statistics (rc=%d):\n%s" % (rc, out[-2000:]))
    st = json.load(open(stats))
    missing = [p for p in c.get("require_pids", []) if p not in st.get("pids_seen", [])]
    if missing and not st["deadline_hit"] and not st.get("found"):
        st["vacuous"] = True
        print("  [%s] VACUOUS: hook points %s were never reached" % (name, missing))
    found = []
    for f in st.get("found", []):
        found.append({"key": "%s: %s" % (name, f["program"]), "msg": "%s with %d deviation(s): %s" % (f["verdict"], f["deviations"], f["msg"]),
                      "replay": os.path.join(ROOT, f["replay"])})
    return {
        "component": name, "engine": "E1 mythmc (deviation-bounded stateless exploration of the real library)",
        "states": st["schedules"], "transitions": st["transitions"], "traces_validated_against_impl": st["schedules"],
        "evaluations": st["schedules"], "distinct_outcomes": st["distinct_outcomes"], "programs": st["programs"],
        "max_bound": st["max_bound"], "completed_bound": st["completed_bound"], "deadline_hit": st["deadline_hit"],
        "exhaustive": st["exhaustive"], "runs_at_depth": st["runs_at_depth"], "verdicts": st["verdicts"],
        "distinct_hook_points": st["distinct_hook_points"], "coverage_matrix": st["cover"], "max_steps": st["max_steps"],
        "samples": st["samples"] + st["program_samples"][:3], "found": found, "vacuous": st["vacuous"], "engine_error": st["engine_error"] or rc == 2,
        "wall_s": st["wall_s"],
        "note": "states = complete executions (one per schedule, all distinct by construction); transitions = scheduling steps executed",
    }


# ---------------------------------------------------------------------------------------------- generic binary component
def binc(name, build, run_quick, run_thorough, engine, deadline=(120, 900)):
    """a component that builds with a shell command and runs a binary/script which writes build/<name>/stats.json
    in the common component format"""
    return {"kind": "bin", "name": name, "build": build, "args": {"quick": run_quick, "thorough": run_thorough},
            "engine": engine, "deadline": {"quick": deadline[0], "thorough": deadline[1]}}


def run_bin(pid, c, tier, seed):
    name = c["name"]
    os.makedirs(os.path.join(ROOT, "build", name), exist_ok=True)
    if c["build"]:
        rc, out = sh(c["build"], env={"REPO": REPO}, timeout=900)
        if rc != 0:
            raise CheckError("build failed:\n" + out[-3000:])
    stats = "build/%s/stats.json" % name
    if os.path.exists(stats):
        os.unlink(stats)
    cmd = c["args"][tier].format(stats=stats, seed=seed, jobs=JOBS, deadline=c["deadline"][tier], tier=tier, replays="replays")
    rc, out = sh(cmd, timeout=c["deadline"][tier] + 600, env={"REPO": REPO})
    for line in out.splitlines():
        if line.startswith(("ENGINE-ERROR", "VACUOUS", "SUMMARY")):
            print("  [%s] %s" % (name, line))
    if not os.path.exists(stats):
        raise CheckError("component produced no statistics (rc=%d):\n%s" % (rc, out[-2000:]))
    st = json.load(open(stats))
    st.setdefault("component", name)
    st.setdefault("engine", c["engine"])
    for f in st.get("found", []):
        if f.get("replay") and not os.path.isabs(f["replay"]):
            f["replay"] = os.path.join(ROOT, f["replay"])
    if rc == 2:
        st["engine_error"] = True
    return st


def run_component(pid, c, tier, seed):
    if c["kind"] == "e1":
        return run_e1(pid, c, tier, seed)
    if c["kind"] == "bin":
        return run_bin(pid, c, tier, seed)
    raise CheckError("unknown component kind " + c["kind"])


def replay(pid, path):
    """replay a violation artefact without the explorer"""
    d = json.load(open(path))
    if "harness" in d:  # E1
        prop = PROPERTIES[pid]
        for tier in ("quick", "thorough"):
            for c in prop["components"](tier):
                if c["kind"] == "e1" and c["name"].endswith(d["harness"]) or c["kind"] == "e1" and d["harness"] in c["src"]:
                    rc, out = sh("engine/build_e1.sh %s %s %s" % (c["name"], c["src"], c["libflags"]), env=dict(c["env"], REPO=REPO))
                    if rc:
                        print(out); return 2
                    rc, out = sh("build/%s/%s --replay %s --trace" % (c["name"], c["name"], path))
                    print(out)
                    return rc
    if "replay_cmd" in d:
        rc, out = sh(d["replay_cmd"])
        print(out)
        return rc
    print("do not know how to replay", path)
    return 2


# ---------------------------------------------------------------------------------------------- properties
E1_ASSUME = [
    "scheduling points sit before every CAS/atomic (macro wrapper), every spin-lock release, every run-queue top/base/slot access, "
    "the status publication and every wait loop of the library (src/myth_verif.h); code between two points is atomic in the explored schedules",
    "sequentially consistent interleavings only (token hand-offs are full fences); x86-TSO store buffering is explored separately for the run queue (C02)",
    "bounded: programs, workers W and deviation bound K as listed per component; executions always run to completion",
]

PROPERTIES = {}


def prop(pid, components, rule, assumptions=None, level_text="", note=""):
    PROPERTIES[pid] = {"components": components, "rule": rule, "assumptions": assumptions or E1_ASSUME, "level_text": level_text, "level_note": note}


prop("C01",
     lambda tier: [e1("c01", "harness/c01_forkjoin.c")] + ([binc("hookaudit", "", "python3 tools/hook_audit.py --stats {stats}", "python3 tools/hook_audit.py --stats {stats}",
                                                            "E1 hook audit (informational: lock-set and scheduling-point coverage of shared accesses)", deadline=(400, 900))] if tier == "thorough" else []),
     "all fork-join programs of the harness grammar (<=3 created threads: single/chain/fan/mixed x 9 creation variants x return/myth_exit x join order x yield) "
     "x all schedules with <= K deviations (preemptions, steal-victim and yield-coin answers) on W workers; distinct = distinct (program, observation log, verdict)")

prop("C04", lambda tier: [e1("c04", "harness/c04_mutex.c")],
     "2-3 contenders, each a sequence of length <=2 over {lock, lock-with-yield-inside, trylock, timedlock} on one mutex (+ bystander programs), "
     "x all schedules with <= K deviations on W workers; distinct = distinct (program, acquisition/EBUSY/timeout counts, verdict)")
prop("C05", lambda tier: [e1("c05", "harness/c05_cond.c")],
     "bounded buffer (1-2 producers, 1-2 consumers, 2-3 items), gate with broadcast (1-3 waiters), turnstile (2-3 threads), stray signal; "
     "x all schedules with <= K deviations on W workers")
prop("C06", lambda tier: [e1("c06", "harness/c06_barrier.c")],
     "N in 1..3 participants x 1..3 rounds x main participating or not x all schedules with <= K deviations on W workers")
prop("C07", lambda tier: [e1("c07", "harness/c07_joincounter.c"),
                          binc("c07b", "engine/build_unit.sh c07b harness/c07_bits.c", "build/c07b/c07b --stats {stats} --tier quick", "build/c07b/c07b --stats {stats} --tier thorough",
                               "E3 seqmc (bounded exhaustive boundary inputs, one process per case)")],
     "E1: all creation orders of <=3 decrementers and <=2 waiters (22 orders) + a late wait by main x all schedules with <= K deviations on W workers; "
     "E3: N in 0..9, 2^k-1, 2^k, 2^k+1 for k=4..30, INT_MAX-1, INT_MAX x 0..2 waiters (large N: state word preset to N-2 decrements, flagged accelerated)")
prop("C08", lambda tier: [e1("c08", "harness/c08_uncond.c")],
     "single-slot SPSC hand-off of 1..3 items following the documented announce/CAS protocol, either side created first, x all schedules with <= K deviations")
prop("C09", lambda tier: [e1("c09", "harness/c09_felock.c"),
                          binc("c09first", "engine/build_unit.sh c09first harness/c09_first.c", "build/c09first/c09first --stats {stats} --tier quick", "build/c09first/c09first --stats {stats} --tier thorough",
                               "E3 seqmc (bounded exhaustive first-use operation sequences, one process each)")],
     "single-slot mailbox with 1-2 producers, 1-2 consumers, 2-3 items, optional plain lock/unlock observer, x all schedules with <= K deviations; "
     "c09first: every legal non-blocking felock operation sequence up to depth 5 (8 thorough) as the first library calls of a process / after fini, against the (locked, status) model, followed by a real exchange")
prop("C14", lambda tier: [e1("c14", "harness/c14_once.c"), e1wrap("c14p", "harness/c14_pthread.c", "ld"),
                          binc("c14first", "engine/build_unit.sh c14first harness/c14_first.c", "build/c14first/c14first --stats {stats} --tier quick", "build/c14first/c14first --stats {stats} --tier thorough",
                               "E3 seqmc (bounded exhaustive first-use cases, one process each)")] + ([e1wrap("c14pdl", "harness/c14_pthread.c", "dl")] if tier == "thorough" else []),
     "1-3 concurrent callers (+ main) + a late call x init routine in {plain, yields, blocks on a mutex, creates and joins a thread} x all schedules with <= K deviations; "
     "c14p: pthread_once through the wrapping build on three adjacent 4-byte once-controls: all orders, nested calls from an init routine, concurrent callers; "
     "c14first: myth_once as the first library call of a process / after fini, with an init routine that creates callers of the same control")

prop("C12", lambda tier: [e1("c12", "harness/c13_reap.c", harness_flags="-DPROP_C12")],
     "18 create/join/detach/try-join/timed-join programs with late joins after intervening creations and mixed stack sizes (default, 4K, 8K, 12K, 64K) "
     "x all schedules with <= K deviations on 1-3 workers; the ownership ledger behind the ALLOC/FREE hooks judges every hand-out and release")
prop("C13", lambda tier: [e1("c13", "harness/c13_reap.c"), e1wrap("c13p", "harness/c13_pthread.c", "ld")] + ([e1wrap("c13pdl", "harness/c13_pthread.c", "dl")] if tier == "thorough" else []),
     "all histories of <=2 (quick) / <=3 (thorough) create/reap cycles over reap modes {join, try-join loop, timed-join, detach, created detached by attribute} x body {returns, yields} "
     "+ detach-after-finish / racing programs, x all schedules with <= K deviations; ledger quiescence + no fresh allocation after the first cycle on one worker; "
     "c13p: the same through the pthread interface (wrapping build): histories over {attribute object with PTHREAD_CREATE_DETACHED, attribute object joinable + join, NULL attributes + join, pthread_detach} x body")

prop("C03", lambda tier: [e1("c03", "harness/c03_context.c")] + ([e1("c03o2", "harness/c03_context.c", libflags="-O2 -g")] if tier == "thorough" else []),
     "2-3 probe threads (one entered through the parent-first path) each performing a sequence over {yield, child-first create+join, parent-first create+join, contended mutex, "
     "barrier, cond wait/signal, uncond hand-off, join of an unfinished thread} inside an assembly probe that holds patterns in rbx, rbp, r12-r15 and a 2 KiB stack array, "
     "x all schedules with <= K deviations; library at -O0 (quick) and additionally -O2 (thorough); coverage matrix {switch kind} x {resumed on same / other worker} must be complete",
     assumptions=E1_ASSUME + ["the 128-byte red-zone skip is exercised (the -O2 build) but not decided: it is a static obligation on the asm template, as the property itself notes"])
prop("C20", lambda tier: [e1("c20", "harness/c20_timed.c"),
                          binc("c20a", "engine/build_unit.sh c20a harness/c20_arith.c", "build/c20a/c20a --stats {stats} --tier quick", "build/c20a/c20a --stats {stats} --tier thorough",
                               "E3 seqmc (bounded exhaustive inputs vs reference model)")],
     "E1: nanosleep/usleep/sleep with a runnable sibling, timedlock against no holder / a holder yielding 1 or 3 times, timedjoin against a finished target / a target yielding 1 or 3 times, "
     "each with deadlines {1 s past, now, now+3 ticks, now+8 ticks}, x all schedules with <= K deviations where every clock read is a decision (default +1 tick, deviation: jump 1 s); "
     "E3: timespec_add/gt on all 900 pairs of boundary values vs 128-bit arithmetic, nanosleep argument validation on 12 classes")

prop("C02", lambda tier: [
        binc("c02e2", "engine/build_e2.sh c02e2 harness/c02_wsqueue_e2.c", "build/c02e2/c02e2 --stats {stats} --tier quick --jobs {jobs} --deadline {deadline}",
             "build/c02e2/c02e2 --stats {stats} --tier thorough --jobs {jobs} --deadline {deadline}",
             "E2 unitmc (explicit-state search; every load/store/atomic of the real queue code is a transition; SC and x86-TSO)", deadline=(150, 1500)),
        e1("c02", "harness/c02_sched.c", env={"EXTRA_LIB_DEFS": "-DMYTH_VERIF_QUEUE_SIZE=8"}, require_pids=(4, 53))],
     "E2: every configuration (capacity 4/8 x prologue fill incl. both storage boundaries x owner program over {push,pop,put} x 1-2 thief programs over {take, take-accept, take-decline, peek, trypass} "
     "x {SC, x86-TSO}) explored exhaustively at access granularity (all interleavings, all store-buffer flush timings), multiset oracle at quiescence; "
     "E1: fan-out / yield ping-pong / parent-first burst / mutex wake-up / custom-steal programs on an 8-entry run queue x all schedules with <= K deviations",
     assumptions=E1_ASSUME + ["E2: x86-TSO abstract machine (per-participant FIFO store buffers, locked instructions and draining fences empty the buffer) executed over the real object code; "
                              "fence strength comes from the MYTH_VERIF_FENCE annotations in src/myth_mem_barrier_func.h; histories stay within the queue capacity (growth is unimplemented, overflow a documented fatal error)"])

ASAN_BUILD = "UNIT_CFLAGS='-O1 -g -fsanitize=address,undefined -fno-omit-frame-pointer' engine/build_unit.sh %s %s"
prop("C10", lambda tier: [
        binc("c10", ASAN_BUILD % ("c10", "harness/c10_tls.c"), "env ASAN_OPTIONS=detect_leaks=0 build/c10/c10 --part c10 --stats {stats} --tier quick",
             "env ASAN_OPTIONS=detect_leaks=0 build/c10/c10 --part c10 --stats {stats} --tier thorough", "E3 seqmc (bounded exhaustive sequences vs dict / live-set models, ASan+UBSan)"),
        binc("c10e2", "E2_EXCLUDE=none engine/build_e2.sh c10e2 harness/c10_keyalloc_e2.c", "build/c10e2/c10e2 --stats {stats} --tier quick --jobs {jobs}",
             "build/c10e2/c10e2 --stats {stats} --tier thorough --jobs {jobs}", "E2 unitmc (explicit-state, access granularity, SC and x86-TSO)"),
        e1("c10m", "harness/c10_migrate.c")],
     "E3: set(k) then get(all 1024) for every key, ordered key pairs, all set-sequences of length <=3/4 over 13 representative keys x 3 values vs a dict, out-of-range indices, "
     "all key-table create/delete histories (incl. double delete and delete of never-created keys) to depth 6/7 + exhaustion at 1024; E2: every interleaving of myth_key_create / myth_key_delete "
     "(delete-own) programs of 2-3 participants on the real key table, destructor registration included; "
     "E1: threads sharing a key across yields and workers, concurrent key creation, x all schedules with <= K deviations")
prop("C11", lambda tier: [
        binc("c11", ASAN_BUILD % ("c11", "harness/c10_tls.c"), "env ASAN_OPTIONS=detect_leaks=0 build/c11/c11 --part c11 --stats {stats} --tier quick",
             "env ASAN_OPTIONS=detect_leaks=0 build/c11/c11 --part c11 --stats {stats} --tier thorough", "E3 seqmc (bounded exhaustive key subsets x destructor masks vs expected call list; ASan+UBSan; forked child per case)"),
        binc("c11e2", "E2_EXCLUDE=none engine/build_e2.sh c11e2 harness/c10_keyalloc_e2.c", "build/c11e2/c11e2 --prop C11 --comp c11e2 --stats {stats} --tier quick --jobs {jobs}",
             "build/c11e2/c11e2 --prop C11 --comp c11e2 --stats {stats} --tier thorough --jobs {jobs}", "E2 unitmc (explicit-state, access granularity, SC and x86-TSO)"),
        e1("c11x", "harness/c11_exit.c")],
     "E1: 1-2 threads holding values under keys whose destructors yield / block on a mutex / are plain / absent, ending by return, myth_exit or cancellation, on 1-2 workers under all schedules with <= K deviations "
     "(the dying thread may change workers inside its destructors); E2: every interleaving of myth_key_create / myth_key_delete programs of 2-3 participants on the real key table: a live key keeps the destructor its creator registered; "
     "every single key 0..1023 with destructor and value; every subset of size <=2/3 of 13 representative keys x destructor mask x NULL/non-NULL mask, on a private tree and key table; "
     "whole library on one worker: 4 key sets x {return, myth_exit, cancel+testcancel}",
     assumptions=["the unit harness #includes src/myth_tls_func.h and calls myth_tls_tree_set / myth_tls_tree_fini exactly as thread creation and exit do", "AddressSanitizer turns any read outside the 1024-entry key table into a verdict"] + E1_ASSUME)

prop("C15", lambda tier: [
        binc("c15", "UNIT_EXCLUDE=myth_bind_worker engine/build_unit.sh c15 harness/c15_config.c", "build/c15/c15 --stats {stats} --tier quick", "build/c15/c15 --stats {stats} --tier thorough",
             "E3 seqmc (bounded exhaustive inputs and histories vs reference recogniser / model)", deadline=(150, 1500)),
        e1("c15f", "harness/c15_fini.c"),
        binc("c15e2", "engine/build_e2_init.sh c15e2", "build/c15e2/c15e2 --stats {stats} --tier quick", "build/c15e2/c15e2 --stats {stats} --tier thorough",
             "E2 unitmc (explicit-state, access granularity, SC and x86-TSO)")],
     "every CPU-list string of length <=5/6 over \"019-:, \\nx\" plus structured long ones through the real parser vs an independent recogniser; every string of length <=3 over {0,1,7,-,+,' ',x} "
     "(and unset) for MYTH_NUM_WORKERS / MYTH_DEF_STKSIZE / MYTH_BIND_WORKERS, selected MYTH_CPU_LIST values, one process each; every init/fini history of length <=4/5 over "
     "{init_ex(1|2|3), init(), implicit init by create, fini, query} with a worker-occupancy test after every creation; worker counts 1..64; two long histories (150-600 init/fini cycles in one process); "
     "the CPU table rebuilt 100/400 times vs its first build; E1: myth_fini under schedule control with main possibly migrated; "
     "E2: 2-3(4) threads whose first use overlaps run the text of myth_init_ex_body / once-control functions (cut out of src/myth_init.c at build time, the real initialisation replaced by a counter) "
     "under every interleaving, SC and x86-TSO: initialised exactly once, nobody returns before it is done",
     assumptions=["reference recogniser for the grammar range(,range)*, range ::= a | a-b | a-b:c, numbers of <=6 digits compared exactly (longer literals: no crash / no hang only)",
                  "an explicit myth_init_ex installs its attributes as the global attributes, which later implicit initialisations use (the library's documented global-attribute semantics)",
                  "well-formed but unusable requests (1..32767-byte default stacks, more than 64 workers) are excluded as the property says",
                  "c15e2 is bound to the source text: if the three functions cannot be located in src/myth_init.c the component explores nothing, says so in the evidence and claims nothing"] + E1_ASSUME)

DAG_ENGINE = "E3 seqmc (serial multi-worker simulator driving the real DAG Recorder; bounded exhaustive programs x schedules x options vs an interval-list oracle)"
DAG_ASSUME = ["the recorder sources (src/profiler/*.c, dag_recorder_inl.h) are compiled unchanged with -DMYTH_VERIF, whose only effect there is the virtual-clock seam dr_verif_clock in dr_get_tsc",
              "executions are produced by a serial simulator of a work-first scheduler on W workers: steals happen when work appears or a worker becomes idle, at most 2 steals/migrations per execution",
              "bounded: programs of <= 3 (quick) / 4 (thorough) tasks, <= 3 sections, nesting <= 2; interval lengths from patterns over {1,3,10}; option settings as listed"]
prop("C18", lambda tier: [binc("c18", "DAG_COMPONENTS=c18 engine/build_dag.sh", "build/c18/c18 --tier quick --stats {stats}", "build/c18/c18 --tier thorough --stats {stats}", DAG_ENGINE, deadline=(600, 3000)),
                          binc("c19_for_c18", "DAG_COMPONENTS=c19 DAG_SUFFIX=_for_c18 engine/build_dag.sh", "build/c19_for_c18/c19 --prop C18 --comp c19_for_c18 --tier quick --stats {stats}",
                               "build/c19_for_c18/c19 --prop C18 --comp c19_for_c18 --tier thorough --stats {stats}", DAG_ENGINE, deadline=(900, 4000))],
     "all well-nested programs (task ::= section* end; section ::= (section|create)* wait; 'other' intervals) of the bound x timing patterns x explicit/implicit section opening x W workers x all steal/migration schedules "
     "(<= 2) x contraction settings (12 path-selecting settings quick, the whole 90-setting grid thorough); root summary and parsed .stat totals vs an oracle computed from the interval list, and across the option grid; "
     "distinct = cases whose recorded DAG differs byte-wise from that of every earlier option setting of the same execution; "
     "plus the file component of C19 (contraction after the fact: every dumped DAG converted under 20 shrink settings, totals of the converted DAG == totals of its input)",
     assumptions=DAG_ASSUME)
prop("C19", lambda tier: [binc("c19", "DAG_COMPONENTS=c19 engine/build_dag.sh", "build/c19/c19 --tier quick --stats {stats}", "build/c19/c19 --tier thorough --stats {stats}", DAG_ENGINE, deadline=(900, 4000))],
     "the executions of C18 x record-time settings, each dumped, read back (raw bytes, dr_read_dag, string table with 1-4 file names), validated structurally by an independent validator, replayed chronologically, "
     "and converted with 20 conversion-time settings; converted DAGs validated and their totals compared with the input's; distinct = byte-wise distinct recorded DAGs per execution",
     assumptions=DAG_ASSUME)

prop("C17", lambda tier: [e1("c17", "harness/c17_bulk.c"), e1("c17m", "harness/c17_mtbb.cc", harness_flags="-I" + REPO + "/src -fpermissive")],
     "C: n in 0..4/7 x {many, various} x NULL-ness of results/ids/attrs x {packed, 2x stride, struct-embedded} with guard words around every slot; "
     "C++: task_group with 0..10/12 run() calls + second batch, parallel_for(first,last[,step[,grain]]) for all first,last in -2..4/5, step 1..3, grain 1..3; "
     "each x all schedules with <= K deviations on 1-2 workers; reference = the sequential loop")


def e1wrap(name, src, mode, deadline=(240, 780)):
    return {"kind": "e1", "name": name, "src": src, "libflags": "", "args": {"quick": "", "thorough": ""}, "deadline": {"quick": deadline[0], "thorough": deadline[1]},
            "env": {}, "harness_flags": "", "require_pids": [], "build_cmd": "engine/build_e1_wrap.sh %s %s %s" % (name, src, mode)}


prop("C16", lambda tier: [e1wrap("c16ld", "harness/c16_pthread.c", "ld"), e1wrap("c16dl", "harness/c16_pthread.c", "dl")],
     "16 families of determinate pthread programs (spawn trees, attribute objects, detached threads, statically initialised mutex/cond first used concurrently, barrier phases, spin locks, once, "
     "keys with destructors (two variants), 18 keys read before and after neighbouring stores, self/equal, pthread_exit from nested frames, yield/usleep mixes, trylock/timedlock on a held mutex, "
     "return codes of the init/destroy/attr calls) with 2-3 threads; reference = the same binary with MYTH_WRAP_PTHREAD=0 (system pthreads); "
     "the redirected run is explored under all schedules with <= K deviations for both redirection mechanisms (ld --wrap objects, symbol-interposing objects)",
     assumptions=E1_ASSUME + ["programs are determinate by construction (their log is ordered by joins); calls outside the supported subset are out of scope as the property says",
                              "both mechanisms are exercised in statically linked form (objects compiled with MYTH_WRAP_LD + @myth-ld.opts; objects compiled with MYTH_WRAP_DL defining the pthread symbols themselves)"])


def fine(name, src, harness_flags="", quickK=1, thoroughK=2, deadline=(240, 700)):
    """E1 in 'every access is a scheduling point' mode (compiler-inserted callbacks, engine/mythmc/fine.c): reaches
    interleavings inside code that carries no explicit hook, e.g. code added by a change"""
    env = {"HARNESS_FLAGS": harness_flags} if harness_flags else {}
    return {"kind": "e1", "name": name, "src": src, "libflags": "", "args": {"quick": "--K %d" % quickK, "thorough": "--K %d" % thoroughK},
            "deadline": {"quick": deadline[0], "thorough": deadline[1]}, "env": env, "harness_flags": harness_flags, "require_pids": [],
            "build_cmd": "engine/build_fine.sh %s %s" % (name, src)}


def with_fine(pid, name, src, harness_flags=""):
    base = PROPERTIES[pid]["components"]
    PROPERTIES[pid]["components"] = lambda tier, base=base: base(tier) + [fine(name, src, harness_flags)]
    PROPERTIES[pid]["rule"] += ("; plus the same programs in fine mode (every load/store of the library is a scheduling point, compiler-inserted callbacks) "
                                "with <= 1 (quick) / <= 2 (thorough, under a deadline) deviations")


def with_boundary(pid, n):
    """wake-ups of the primitive across the storage boundary of an 8-entry run queue (harness/cxx_boundary.c)"""
    base = PROPERTIES[pid]["components"]
    comp = e1("c%02db" % n, "harness/cxx_boundary.c", env={"EXTRA_LIB_DEFS": "-DMYTH_VERIF_QUEUE_SIZE=8"}, harness_flags="-DBND_PROP=%d" % n, require_pids=(4,), deadline=(100, 300))
    PROPERTIES[pid]["components"] = lambda tier, base=base, comp=comp: base(tier) + [comp]
    PROPERTIES[pid]["rule"] += ("; plus 7-20 wake-ups of one waiter by a waker that keeps its worker, on an 8-entry run queue, so that the woken thread is pushed at the "
                                "end of the queue storage (re-centring) and has to be taken by the other worker")


for _pid, _n in (("C04", 4), ("C05", 5), ("C06", 6), ("C08", 8), ("C09", 9)):
    with_boundary(_pid, _n)

with_fine("C01", "c01f", "harness/c01_forkjoin.c")
with_fine("C04", "c04f", "harness/c04_mutex.c")
with_fine("C05", "c05f", "harness/c05_cond.c")
with_fine("C06", "c06f", "harness/c06_barrier.c")
with_fine("C07", "c07f", "harness/c07_joincounter.c")
with_fine("C08", "c08f", "harness/c08_uncond.c")
with_fine("C09", "c09f", "harness/c09_felock.c")
with_fine("C12", "c12f", "harness/c13_reap.c", "-DPROP_C12")
with_fine("C13", "c13f", "harness/c13_reap.c")
with_fine("C14", "c14f", "harness/c14_once.c")
with_fine("C03", "c03f", "harness/c03_context.c")
with_fine("C10", "c10mf", "harness/c10_migrate.c")
with_fine("C15", "c15ff", "harness/c15_fini.c")
with_fine("C17", "c17f", "harness/c17_bulk.c")
with_fine("C11", "c11xf", "harness/c11_exit.c")
with_fine("C20", "c20f", "harness/c20_timed.c")


def _sleep_e2(name):
    return binc(name, "E2_EXCLUDE=none engine/build_e2.sh %s harness/c06_sleep_e2.c" % name, "build/%s/%s --stats {stats} --tier quick --jobs {jobs}" % (name, name),
                "build/%s/%s --stats {stats} --tier thorough --jobs {jobs}" % (name, name), "E2 unitmc (explicit-state, access granularity, SC and x86-TSO)")


for _pid, _n in (("C06", "c06e2"), ("C04", "c04e2"), ("C05", "c05e2")):
    _b = PROPERTIES[_pid]["components"]
    PROPERTIES[_pid]["components"] = lambda tier, b=_b, n=_n: b(tier) + [_sleep_e2(n)]
    PROPERTIES[_pid]["rule"] += "; plus every interleaving (SC and x86-TSO) of 2-3 participants on the real sleeper stack / sleep queue code (E2)"
