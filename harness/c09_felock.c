/* C09 --- full/empty lock: single-slot mailbox, P producers, C consumers, plain lock/unlock mixed in. */
#include "hcommon.h"
typedef struct { int np, nc, n, peek, W, K, readff; } prog_t;
#define MAXP 64
static prog_t P[2][MAXP]; static int NP[2];
static void add(int tier, int np, int nc, int n, int peek, int W, int K) { if (NP[tier] < MAXP) { prog_t * p = &P[tier][NP[tier]++]; p->np = np; p->nc = nc; p->n = n; p->peek = peek; p->W = W; p->K = K; p->readff = 0; } }
static void build(void) {
  static int built; if (built) return; built = 1;
  for (int tier = 0; tier < 2; tier++) for (int W = 1; W <= (tier ? 3 : 2); W++) {
    int K = tier ? 3 : 2; if (W == 3) K = 2;
    add(tier, 1, 1, 2, 0, W, K); add(tier, 1, 1, 2, 1, W, tier ? 2 : 1); add(tier, 2, 1, 2, 0, W, 2); add(tier, 1, 2, 2, 0, W, 2);
    add(tier, 2, 2, 2, 0, W, tier ? 2 : 1); if (tier) { add(tier, 1, 1, 3, 0, W, 2); add(tier, 2, 2, 2, 1, W, 1); }
    /* read-and-leave-full: one writer fills the cell once, nc readers each wait for "full" and leave it full */
    for (int r = 2; r <= (tier ? 3 : 2) + (W == 1); r++) { add(tier, 1, r, 1, 0, W, r == 2 ? K : 1); P[tier][NP[tier] - 1].readff = 1; }
  }
}
static int nprogs(int tier) { build(); return NP[tier]; }
static void config(int tier, int prog, int * W, int * K) { build(); *W = P[tier][prog].W; *K = P[tier][prog].K; }
static void describe(int tier, int prog, char * b, size_t n) { build(); prog_t * p = &P[tier][prog];
  if (p->readff) { snprintf(b, n, "felock read-and-leave-full: 1 writer, %d readers", p->nc); return; }
  snprintf(b, n, "felock mailbox producers=%d consumers=%d items=%d%s", p->np, p->nc, p->n, p->peek ? " +plain lock/unlock observer" : ""); }
static prog_t * cur; static myth_felock_t fe;
static volatile int occ, box, next_item, got_n, got_sum, stop_peek;
static void inside(const char * who, int want) {
  occ++; mv_point(&occ, sizeof occ);
  MV_CHECK(occ == 1, "%s: felock not held exclusively (occupancy %d)", who, occ);
  if (want >= 0) MV_CHECK(myth_felock_status(&fe) == want, "%s: wait_and_lock(%d) returned while status is %d", who, want, myth_felock_status(&fe));
  occ--;
}
static void * producer(void * a) {
  int cnt = (int)(long)a;
  for (int i = 0; i < cnt; i++) { myth_felock_wait_and_lock(&fe, 0); inside("producer", 0); box = ++next_item; myth_felock_mark_and_signal(&fe, 1); }
  return 0;
}
static void * consumer(void * a) {
  int cnt = (int)(long)a;
  for (int i = 0; i < cnt; i++) { myth_felock_wait_and_lock(&fe, 1); inside("consumer", 1); got_sum += box; got_n++; box = 0; myth_felock_mark_and_signal(&fe, 0); }
  return 0;
}
static volatile int readers_done;
static void * ff_reader(void * a) {
  (void)a; myth_felock_wait_and_lock(&fe, 1); inside("reader", 1);
  MV_CHECK(box == 77, "reader saw %d in the cell", box);
  readers_done++;
  myth_felock_mark_and_signal(&fe, 1);        /* leave it full: the next reader must be let through */
  return 0;
}
static void * ff_writer(void * a) { (void)a; myth_felock_wait_and_lock(&fe, 0); inside("writer", 0); box = 77; myth_felock_mark_and_signal(&fe, 1); return 0; }
static void * observer(void * a) {
  (void)a;
  for (int i = 0; i < 2; i++) { myth_felock_lock(&fe); inside("observer", -1); myth_felock_unlock(&fe); myth_yield(); }
  return 0;
}
static void run(int tier, int prog) {
  build(); cur = &P[tier][prog];
  mv_start(cur->W);
  h_maybe_custom_steal(prog, cur->W);
  h_felock_init(&fe, prog & 1);
  static h_sentinel_t sent; h_sentinel_start(&sent, 9, prog);
  static h_bystander_t byst; h_bystander_start(&byst, prog, cur->W);
  myth_thread_t th[8]; int nt = 0;
  if (cur->readff) {
    for (int i = 0; i < cur->nc; i++) th[nt++] = myth_create(ff_reader, 0);
    th[nt++] = myth_create(ff_writer, 0);
    for (int i = 0; i < nt; i++) myth_join(th[i], 0);
    MV_CHECK(readers_done == cur->nc && myth_felock_status(&fe) == 1, "%d of %d readers got through, status %d", readers_done, cur->nc, myth_felock_status(&fe));
    mv_obs("readers=%d", readers_done); myth_felock_destroy(&fe); mv_finish(); return;
  }
  for (int i = 0; i < cur->nc; i++) th[nt++] = myth_create(consumer, (void *)(long)(cur->n / cur->nc));
  if (cur->peek) th[nt++] = myth_create(observer, 0);
  for (int i = 0; i < cur->np; i++) th[nt++] = myth_create(producer, (void *)(long)(cur->n / cur->np));
  for (int i = 0; i < nt; i++) myth_join(th[i], 0);
  int n = (cur->n / cur->np) * cur->np;
  MV_CHECK(got_n == n && got_sum == n * (n + 1) / 2, "items lost or duplicated: got %d items summing to %d of %d", got_n, got_sum, n);
  MV_CHECK(myth_felock_status(&fe) == 0, "status %d at the end", myth_felock_status(&fe));
  mv_obs("got=%d", got_n);
  h_bystander_finish(&byst);
  h_sentinel_finish(&sent);
  h_felock_epilogue(&fe, prog & 1);
  mv_finish();
}
static uint64_t cover_required(int tier) { (void)tier; return 0; }
mc_harness_t mc_harness = { "C09", "felock", nprogs, describe, config, run, 0, cover_required };
