/* C14 (pthread part) --- pthread_once through the wrapping build: several once-controls that lie next to each other in memory
 * (pthread_once_t is 4 bytes), used in every order, nested (the init routine of one calls pthread_once on its neighbour) and by
 * concurrent callers.  Oracle: every init routine runs exactly once, no caller returns before the routine of its control has
 * completed, later calls return at once, and a control is never disturbed by what happens to its neighbours. */
#include <pthread.h>
#include <sched.h>
#include "hcommon.h"
typedef struct { int kind, a, W, K; } prog_t;   /* kind 0: sequential orders (a = permutation 0..5), 1: nested (a = which control nests which), 2: concurrent callers (a = number of threads) */
#define MAXP 64
static prog_t P[2][MAXP]; static int NP[2];
static void add(int tier, int kind, int a, int W, int K) { if (NP[tier] < MAXP) { prog_t * p = &P[tier][NP[tier]++]; p->kind = kind; p->a = a; p->W = W; p->K = K; } }
static void build(void) {
  static int built; if (built) return; built = 1;
  for (int tier = 0; tier < 2; tier++) for (int W = 1; W <= 2; W++) {
    for (int a = 0; a < 6; a++) add(tier, 0, a, W, 1);
    for (int a = 0; a < 4; a++) add(tier, 1, a, W, W == 1 ? 1 : 2);
    for (int a = 2; a <= 3; a++) add(tier, 2, a, W, tier ? (a == 2 ? 3 : 2) : (a == 2 ? 2 : 1));
  }
}
static int nprogs(int tier) { build(); return NP[tier]; }
static void config(int tier, int prog, int * W, int * K) { build(); *W = P[tier][prog].W; *K = P[tier][prog].K; }
static void describe(int tier, int prog, char * b, size_t n) {
  build(); prog_t * p = &P[tier][prog];
  static const char * const perm[] = { "0,1,2", "0,2,1", "1,0,2", "1,2,0", "2,0,1", "2,1,0" };
  if (p->kind == 0) snprintf(b, n, "pthread_once on three adjacent controls in the order %s, then all again", perm[p->a]);
  else if (p->kind == 1) snprintf(b, n, "pthread_once nested: the routine of control %d calls pthread_once on control %d; then all three", p->a & 1, (p->a >> 1) ? 2 : ((p->a & 1) ^ 1));
  else snprintf(b, n, "pthread_once: %d threads call on controls 0 and 1 concurrently, routines yield", p->a);
}
static prog_t * cur;
static struct { pthread_once_t c[3]; int guard; } O = { { PTHREAD_ONCE_INIT, PTHREAD_ONCE_INIT, PTHREAD_ONCE_INIT }, 0x5A5A5A5A };
static volatile int runs[3], val[3], nest_from = -1, nest_to = -1;
static void init_n(int i) {
  runs[i]++;
  if (nest_from == i) { extern void init0(void), init1(void), init2(void); static void (* const F[3])(void) = { init0, init1, init2 }; int rc = pthread_once(&O.c[nest_to], F[nest_to]); MV_CHECK(rc == 0, "nested pthread_once returned %d", rc); MV_CHECK(val[nest_to] == 70 + nest_to, "nested pthread_once returned before the routine of control %d completed", nest_to); }
  sched_yield();
  val[i] = 70 + i;     /* the value appears only at the end of the routine */
}
void init0(void) { init_n(0); }
void init1(void) { init_n(1); }
void init2(void) { init_n(2); }
static void (* const INIT[3])(void) = { init0, init1, init2 };
static void call(int i) { int rc = pthread_once(&O.c[i], INIT[i]); MV_CHECK(rc == 0, "pthread_once returned %d", rc); MV_CHECK(val[i] == 70 + i, "pthread_once on control %d returned before its init routine had completed", i); }
static void * caller(void * a) { long me = (long)a; call(me & 1); call((me & 1) ^ 1); return 0; }
static void run(int tier, int prog) {
  build(); cur = &P[tier][prog];
  mv_start(cur->W);
  static const int perm[6][3] = { {0,1,2}, {0,2,1}, {1,0,2}, {1,2,0}, {2,0,1}, {2,1,0} };
  int used = 3;
  if (cur->kind == 0) { for (int r = 0; r < 2; r++) for (int j = 0; j < 3; j++) call(perm[cur->a][j]); }
  else if (cur->kind == 1) { nest_from = cur->a & 1; nest_to = (cur->a >> 1) ? 2 : (nest_from ^ 1); call(nest_from); call(nest_to); call(nest_from); call(0); call(1); call(2); }
  else { pthread_t th[3]; used = 2; for (long i = 0; i < cur->a; i++) pthread_create(&th[i], NULL, caller, (void *)i); for (int i = 0; i < cur->a; i++) pthread_join(th[i], NULL); }
  for (int i = 0; i < used; i++) MV_CHECK(runs[i] == 1, "the init routine of control %d ran %d time(s)", i, runs[i]);
  MV_CHECK(O.guard == 0x5A5A5A5A, "the word behind the last once-control was overwritten (%#x)", O.guard);
  mv_obs("runs=%d,%d,%d", runs[0], runs[1], runs[2]);
  mv_finish();
}
static uint64_t cover_required(int tier) { (void)tier; return 0; }
mc_harness_t mc_harness = { "C14", "ponce", nprogs, describe, config, run, 0, cover_required };
