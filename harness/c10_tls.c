/* C10 / C11 (E3 parts) --- the per-thread key/value tree, the key table and the destructor walk, driven with
 * bounded exhaustive operation sequences against boring reference models (a dict per thread, a set of live keys,
 * a list of expected destructor calls).  Built with ASan+UBSan: an out-of-bounds read is a verdict, not luck.
 *   --part c10 | c11     [--tier quick|thorough]  [--stats FILE]   [--case "<text>"] (replay one C11 case)
 */
#include "myth/myth.h"
#include "myth_config.h"
#include "myth_tls_func.h"
#include <sys/mman.h>
#include <sys/wait.h>
#include <unistd.h>
#include "seqmc.h"
#include <sys/wait.h>
#include <limits.h>

static const int REP[13] = { 0, 1, 15, 16, 17, 63, 64, 255, 256, 257, 511, 768, 1023 };
static myth_tls_key_allocator_t KA[1];      /* a private key table: nothing global is touched */

/* C10 does not involve destructors: release the nodes only (the destructor walk is C11's subject) */
static void tree_free(myth_tls_tree_t * t) { if (t->root) myth_tls_tree_destroy(t); }

/* ------------------------------------------------------------------ C10 */
static void c10_single_and_pairs(int tier) {
  static myth_tls_tree_t t[1];
  for (int k = 0; k < 1024; k++) {
    myth_tls_tree_init(t);
    void * v = (void *)(long)(0x5000 + k);
    int r = myth_tls_tree_set(t, k, v); SQ.transitions++;
    if (r != 0) { char key[60]; snprintf(key, sizeof key, "set(%d)", k); sq_found(key, "", "set of a valid key returned %d", r); }
    for (int j = 0; j < 1024; j++) {
      void * g = myth_tls_tree_get(t, j); SQ.transitions++;
      if (g != (j == k ? v : NULL)) { char key[60]; snprintf(key, sizeof key, "set(%d);get(%d)", k, j); sq_found(key, "", "get(%d) after set(%d) returned %p, model says %p", j, k, g, j == k ? v : NULL); goto out1; }
    }
    SQ.states++; SQ.evaluations++;
  out1:
    tree_free(t);
  }
  int step = tier ? 1 : 3;    /* quick: every third first key (all residues of the 2-2-2-4 digit decomposition still occur) */
  for (int k1 = 0; k1 < 1024; k1 += step) for (int k2 = 0; k2 < 1024; k2++) {
    myth_tls_tree_init(t);
    void * a = (void *)0xA0A0, * b = (void *)0xB0B0;
    myth_tls_tree_set(t, k1, a); myth_tls_tree_set(t, k2, b);
    void * g1 = myth_tls_tree_get(t, k1), * g2 = myth_tls_tree_get(t, k2);
    SQ.transitions += 4; SQ.states++; SQ.evaluations++;
    if (g2 != b || g1 != (k1 == k2 ? b : a)) { char key[60]; snprintf(key, sizeof key, "set(%d);set(%d)", k1, k2); sq_found(key, "", "pair of keys (%d,%d): read back %p,%p", k1, k2, g1, g2); tree_free(t); return; }
    tree_free(t);
  }
  sq_sample("set(k,v) then get(all 1024 keys) for every k; set(k1,a);set(k2,b) for %s ordered pairs", tier ? "all 1024x1024" : "342x1024");
}

static void c10_sequences(int maxlen) {
  /* all sequences of set(key,value) over 13 representative keys x {a,b,NULL}, compared with a dict after every step */
  static myth_tls_tree_t t[1];
  void * vals[3] = { (void *)0xAAAA, (void *)0xBBBB, NULL };
  int idx[6] = {0}; long nseq = 0;
  for (int len = 1; len <= maxlen; len++) {
    memset(idx, 0, sizeof idx);
    for (;;) {
      void * model[13] = {0};
      myth_tls_tree_init(t);
      int bad = 0;
      for (int s = 0; s < len && !bad; s++) {
	int ki = idx[s] / 3, vi = idx[s] % 3;
	if (myth_tls_tree_set(t, REP[ki], vals[vi]) != 0) bad = 1;
	model[ki] = vals[vi]; SQ.transitions++;
	if (s == len - 1) for (int q = 0; q < 13; q++) { if (myth_tls_tree_get(t, REP[q]) != model[q]) bad = 1; SQ.transitions++; }
      }
      nseq++; SQ.states++; SQ.evaluations++;
      if (bad) {
	char key[160]; int o = 0; for (int s = 0; s < len; s++) o += snprintf(key + o, sizeof key - o, "set(%d,%s);", REP[idx[s] / 3], idx[s] % 3 == 0 ? "a" : idx[s] % 3 == 1 ? "b" : "NULL");
	sq_found(key, "", "tree disagrees with the dictionary model after this sequence"); tree_free(t); return;
      }
      if (nseq == 777) { char b[120]; int o = 0; for (int s = 0; s < len; s++) o += snprintf(b + o, sizeof b - o, "set(%d,%s);", REP[idx[s] / 3], idx[s] % 3 == 0 ? "a" : idx[s] % 3 == 1 ? "b" : "NULL"); sq_sample("%s then get of 13 keys vs dict", b); }
      tree_free(t);
      int k = len - 1; while (k >= 0 && ++idx[k] == 39) { idx[k] = 0; k--; }
      if (k < 0) break;
    }
  }
  sq_detail("%ld set-sequences of length <= %d over 13 keys x 3 values; ", nseq, maxlen);
}

static void c10_range(void) {
  static myth_tls_tree_t t[1]; myth_tls_tree_init(t);
  int bad_idx[] = { -1, -1024, 1024, 1025, 65536, INT_MAX, INT_MIN };
  myth_tls_tree_set(t, 5, (void *)0x55);
  for (unsigned i = 0; i < sizeof bad_idx / sizeof bad_idx[0]; i++) {
    int r = myth_tls_tree_set(t, bad_idx[i], (void *)0x66); void * g = myth_tls_tree_get(t, bad_idx[i]);
    SQ.transitions += 2; SQ.states++; SQ.evaluations++;
    if (r != EINVAL || g != NULL) { char key[60]; snprintf(key, sizeof key, "key index %d", bad_idx[i]); sq_found(key, "", "out-of-range key: set returned %d, get returned %p", r, g); }
  }
  if (myth_tls_tree_get(t, 5) != (void *)0x55) sq_found("out-of-range set", "", "an out-of-range set disturbed key 5");
  tree_free(t);
}

/* key table: all create/delete histories to depth D; model = set of live keys */
static int kt_depth; static long kt_hist;
static void kt_rec(int depth, int * ops, int nops) {
  /* replay on a fresh table (objects do not copy) */
  myth_tls_key_allocator_init(KA);
  int live[16], nlive = 0, bad = 0, last_deleted = -1; char why[200] = "";
  for (int i = 0; i < nops && !bad; i++) {
    int op = ops[i]; SQ.transitions++;
    if (op == 0) {
      int k = myth_tls_key_allocator_alloc(KA, 0);
      if (k < 0 || k >= 1024) { bad = 1; snprintf(why, sizeof why, "create returned %d with %d live keys", k, nlive); break; }
      for (int j = 0; j < nlive; j++) if (live[j] == k) { bad = 1; snprintf(why, sizeof why, "create handed out key %d which is still live", k); }
      live[nlive++] = k;
    } else if (op >= 1 && op <= 3) {
      int which = op - 1;
      if (which >= nlive) { /* delete a key that is not live: must be rejected */
	int k = nlive ? live[0] + 500 : 7;
	if (myth_tls_key_allocator_dealloc(KA, k) != (myth_tls_destructor_fun_t)-1) { bad = 1; snprintf(why, sizeof why, "delete of non-live key %d accepted", k); }
      } else {
	if (myth_tls_key_allocator_dealloc(KA, live[which]) == (myth_tls_destructor_fun_t)-1) { bad = 1; snprintf(why, sizeof why, "delete of live key %d rejected", live[which]); }
	last_deleted = live[which];
	memmove(&live[which], &live[which + 1], sizeof(int) * (nlive - which - 1)); nlive--;
      }
    } else if (op <= 5) {
      int k = op == 4 ? -1 : 1024;
      if (myth_tls_key_allocator_dealloc(KA, k) != (myth_tls_destructor_fun_t)-1) { bad = 1; snprintf(why, sizeof why, "delete of out-of-range key %d accepted", k); }
    } else {
      /* delete of a key that is in range but not live: 6 = the key deleted last (double delete), 7 = key 1023 (the last cell of the initial free list) */
      int k = op == 6 ? last_deleted : 1023, is_live = 0;
      for (int j = 0; j < nlive; j++) if (live[j] == k) is_live = 1;
      if (k >= 0 && !is_live && myth_tls_key_allocator_dealloc(KA, k) != (myth_tls_destructor_fun_t)-1) { bad = 1; snprintf(why, sizeof why, "delete of key %d, which is not live (%s), accepted", k, op == 6 ? "deleted before" : "never created"); }
    }
  }
  kt_hist++; SQ.states++; SQ.evaluations++;
  if (bad) { char key[100]; int o = 0; for (int i = 0; i < nops; i++) o += snprintf(key + o, sizeof key - o, "%d", ops[i]); sq_found(key, "", "key table history (0=create,1-3=delete i-th live,4/5=out of range,6=delete again the key deleted last,7=delete key 1023): %s", why); return; }
  if (depth == kt_depth) return;
  for (int op = 0; op < 8; op++) { ops[nops] = op; kt_rec(depth + 1, ops, nops + 1); if (SQ.nfound) return; }
}
static void c10_keytable(int depth) {
  int ops[16]; kt_depth = depth; kt_hist = 0; kt_rec(0, ops, 0);
  /* exhaustion and reuse */
  myth_tls_key_allocator_init(KA);
  static char seen[1024]; memset(seen, 0, sizeof seen);
  for (int i = 0; i < 1024; i++) {
    int k = myth_tls_key_allocator_alloc(KA, 0); SQ.transitions++;
    if (k < 0 || k >= 1024 || seen[k]) { sq_found("1024 creates", "", "create #%d returned %d (%s)", i, k, k >= 0 && k < 1024 ? "duplicate" : "failure"); return; }
    seen[k] = 1;
  }
  if (myth_tls_key_allocator_alloc(KA, 0) != -1) sq_found("1025th create", "", "the 1025th create did not fail");
  if (myth_tls_key_allocator_dealloc(KA, 321) == (myth_tls_destructor_fun_t)-1) sq_found("delete at exhaustion", "", "delete of live key 321 rejected");
  if (myth_tls_key_allocator_dealloc(KA, 321) != (myth_tls_destructor_fun_t)-1) sq_found("double delete at exhaustion", "", "second delete of key 321 accepted although it is no longer live");
  if (myth_tls_key_allocator_alloc(KA, 0) != 321) sq_found("reuse after delete", "", "create after delete did not reuse the freed key");
  if (myth_tls_key_allocator_alloc(KA, 0) != -1) sq_found("create beyond exhaustion after a double delete", "", "a create succeeded with 1024 live keys: some key is handed out twice");
  SQ.states += 5; SQ.evaluations += 5;
  sq_detail("%ld key-table histories to depth %d + exhaustion history (1024 creates, 1025th fails, delete+create reuses); ", kt_hist, depth);
  sq_sample("key table history e.g. create,create,delete(oldest),create,delete(non-live),create");
}

/* ------------------------------------------------------------------ C11 */
static struct { int fn; void * val; } dlog[64]; static int ndlog;
static void d0(void * v) { if (ndlog < 64) { dlog[ndlog].fn = 0; dlog[ndlog].val = v; } ndlog++; }
static void d1(void * v) { if (ndlog < 64) { dlog[ndlog].fn = 1; dlog[ndlog].val = v; } ndlog++; }
static void d2(void * v) { if (ndlog < 64) { dlog[ndlog].fn = 2; dlog[ndlog].val = v; } ndlog++; }
static void (*DF[3])(void *) = { d0, d1, d2 };

/* one case: keys[0..n), dmask bit i = key i has a destructor, vmask bit i = the thread holds a non-NULL value for key i.
   returns 0 ok, 1 mismatch (msg filled) */
static int c11_case(const int * keys, int n, int dmask, int vmask, char * msg, size_t msz) {
  /* every key 0..1023 is live (created in order); the chosen ones get their destructors */
  myth_tls_key_allocator_init(KA);
  for (int k = 0; k < 1024; k++) {
    myth_tls_destructor_fun_t d = 0;
    for (int i = 0; i < n; i++) if (keys[i] == k && (dmask >> i & 1)) d = DF[i];
    int got = myth_tls_key_allocator_alloc(KA, d);
    if (got != k) { snprintf(msg, msz, "key table did not hand out keys in order (%d != %d)", got, k); return 1; }
  }
  static myth_tls_tree_t t[1]; myth_tls_tree_init(t);
  for (int i = 0; i < n; i++) myth_tls_tree_set(t, keys[i], (vmask >> i & 1) ? (void *)(long)(0x7000 + keys[i]) : NULL);
  ndlog = 0;
  myth_tls_tree_fini(t, KA);
  /* model: exactly one call per key with a destructor and a non-NULL value, with that value; never a foreign value.
     A call with NULL for a key that has a destructor is neither demanded nor forbidden by the property (POSIX would
     skip it; the library's own test tests/myth_key_destructor.c expects it), so such calls are ignored here. */
  int want = 0, nonnull = 0;
  for (int i = 0; i < n; i++) if ((dmask >> i & 1) && (vmask >> i & 1)) want++;
  int o = 0, bad = 0;
  for (int j = 0; j < ndlog && j < 64; j++) if (dlog[j].val != NULL) nonnull++;
  for (int i = 0; i < n; i++) {
    int calls = 0;
    for (int j = 0; j < ndlog && j < 64; j++) if (dlog[j].fn == i && dlog[j].val != NULL) { calls++; if (dlog[j].val != (void *)(long)(0x7000 + keys[i])) { bad = 1; o += snprintf(msg + o, msz - o, "destructor of key %d called with %p (not its value); ", keys[i], dlog[j].val); } }
    int expect = ((dmask >> i & 1) && (vmask >> i & 1)) ? 1 : 0;
    if (calls != expect && !bad) { bad = 1; o += snprintf(msg + o, msz - o, "destructor of key %d called %d time(s) with a value, expected %d; ", keys[i], calls, expect); }
  }
  if (nonnull != want && !bad) { bad = 1; snprintf(msg + o, msz - o, "%d destructor calls with a value in total, expected %d", nonnull, want); }
  return bad;
}

/* two thread lifetimes on the same storage (a recycled thread record): the first thread leaves a value under key k1, which
   has no destructor; the second stores under k2 only, while a different key of k2's leaf that occupies k1's slot position
   has a destructor.  That destructor must not be called with anything but NULL (the second thread never stored there). */
static int c11_recycled_case(int k1, int k2, char * msg, size_t msz) {
  int kd = (k2 & ~15) | (k1 & 15);
  if (kd == k2) return 0;
  myth_tls_key_allocator_init(KA);
  for (int k = 0; k < 1024; k++) { int got = myth_tls_key_allocator_alloc(KA, k == kd ? d0 : (k == k2 ? d1 : 0)); if (got != k) { snprintf(msg, msz, "key order"); return 1; } }
  static myth_tls_tree_t t[1];
  myth_tls_tree_init(t); myth_tls_tree_set(t, k1, (void *)(long)(0x9000 + k1)); ndlog = 0; myth_tls_tree_fini(t, KA);     /* first lifetime */
  myth_tls_tree_init(t); myth_tls_tree_set(t, k2, (void *)(long)(0x7000 + k2));
  void * g = myth_tls_tree_get(t, kd);
  if (g != NULL) { snprintf(msg, msz, "second thread reads %p under key %d which it never stored (left behind by the previous owner of the record under key %d)", g, kd, k1); return 1; }
  ndlog = 0; myth_tls_tree_fini(t, KA);                                                                                  /* second lifetime ends */
  for (int j = 0; j < ndlog && j < 64; j++) {
    if (dlog[j].fn == 0 && dlog[j].val != NULL) { snprintf(msg, msz, "destructor of key %d, which the exiting thread never stored, was called with %p (a value the previous owner of the record left under key %d)", kd, dlog[j].val, k1); return 1; }
    if (dlog[j].fn == 1 && dlog[j].val != NULL && dlog[j].val != (void *)(long)(0x7000 + k2)) { snprintf(msg, msz, "destructor of key %d called with foreign value %p", k2, dlog[j].val); return 1; }
  }
  int c2 = 0; for (int j = 0; j < ndlog && j < 64; j++) if (dlog[j].fn == 1 && dlog[j].val == (void *)(long)(0x7000 + k2)) c2++;
  if (c2 != 1) { snprintf(msg, msz, "destructor of key %d called %d times with its value", k2, c2); return 1; }
  return 0;
}
static int c11_recycled_forked(int k1, int k2, char * msg, size_t msz) {
  int pfd[2]; if (pipe(pfd)) return 2;
  pid_t pid = fork();
  if (pid == 0) { close(pfd[0]); char m[300] = ""; int r = c11_recycled_case(k1, k2, m, sizeof m); if (write(pfd[1], m, strlen(m) + 1) < 0) {} _exit(r); }
  close(pfd[1]); ssize_t k = read(pfd[0], msg, msz - 1); if (k < 0) k = 0; msg[k] = 0; close(pfd[0]);
  int st = 0; waitpid(pid, &st, 0);
  if (WIFSIGNALED(st) || (WIFEXITED(st) && WEXITSTATUS(st) > 1)) { snprintf(msg, msz, "thread exit crashed / sanitizer abort on a recycled record"); return 1; }
  return WIFEXITED(st) ? WEXITSTATUS(st) : 1;
}

static int c11_forked(const int * keys, int n, int dmask, int vmask, char * msg, size_t msz) {
  /* ASan aborts the process on an out-of-bounds access: run each batch of cases in a child */
  int pfd[2]; if (pipe(pfd)) return 2;
  pid_t pid = fork();
  if (pid == 0) {
    close(pfd[0]); char m[300] = ""; int r = c11_case(keys, n, dmask, vmask, m, sizeof m);
    if (write(pfd[1], m, strlen(m) + 1) < 0) {}
    _exit(r);
  }
  close(pfd[1]); ssize_t k = read(pfd[0], msg, msz - 1); if (k < 0) k = 0; msg[k] = 0; close(pfd[0]);
  int st = 0; waitpid(pid, &st, 0);
  if (WIFSIGNALED(st)) { snprintf(msg, msz, "thread exit crashed (signal %d) while running destructors", WTERMSIG(st)); return 1; }
  if (WIFEXITED(st) && WEXITSTATUS(st) > 1) { snprintf(msg, msz, "thread exit aborted (sanitizer report: out-of-bounds access, exit status %d)", WEXITSTATUS(st)); return 1; }
  return WIFEXITED(st) ? WEXITSTATUS(st) : 1;
}

static void c11_key(char * out, size_t n, const int * keys, int nk, int dmask, int vmask) {
  int o = snprintf(out, n, "keys{");
  for (int i = 0; i < nk; i++) o += snprintf(out + o, n - o, "%s%d%s%s", i ? "," : "", keys[i], (dmask >> i & 1) ? "+dtor" : "", (vmask >> i & 1) ? "=val" : "=NULL");
  snprintf(out + o, n - o, "}");
}

static void c11_units(int tier) {
  char msg[400]; long cases = 0;
  /* every single key, with destructor and value */
  for (int k = 0; k < 1024; k++) {
    int keys[1] = { k };
    /* batch in-process first (fast); on mismatch or for the risky ones re-run forked */
    int r = c11_forked(keys, 1, 1, 1, msg, sizeof msg); cases++; SQ.states++; SQ.evaluations++; SQ.transitions += 3;
    if (r) { char key[200]; c11_key(key, sizeof key, keys, 1, 1, 1); char arg[100]; snprintf(arg, sizeof arg, "--part c11 --case 1:%d:1:1", k); sq_found(key, arg, "%s", msg); if (SQ.nfound >= 6) break; }
  }
  int maxsz = tier ? 3 : 2;
  for (int sz = 1; sz <= maxsz && SQ.nfound < 12; sz++) {
    int id[3] = {0, 1, 2};
    for (id[0] = 0; id[0] < 13; id[0]++) for (id[1] = (sz > 1 ? id[0] + 1 : 12); id[1] < (sz > 1 ? 13 : 13); id[1]++) for (id[2] = (sz > 2 ? id[1] + 1 : 12); id[2] < 13; id[2]++) {
      int keys[3] = { REP[id[0]], REP[id[1]], REP[id[2]] };
      for (int dm = 0; dm < (1 << sz); dm++) for (int vm = 0; vm < (1 << sz); vm++) {
	int r = c11_forked(keys, sz, dm, vm, msg, sizeof msg); cases++; SQ.states++; SQ.evaluations++; SQ.transitions += sz + 2;
	if (r && SQ.nfound < 12) { char key[200]; c11_key(key, sizeof key, keys, sz, dm, vm); char arg[120]; snprintf(arg, sizeof arg, "--part c11 --case %d:%d,%d,%d:%d:%d", sz, keys[0], keys[1], keys[2], dm, vm); sq_found(key, arg, "%s", msg); }
	if (cases == 1500) { char key[200]; c11_key(key, sizeof key, keys, sz, dm, vm); sq_sample("%s at thread exit vs expected destructor-call list", key); }
      }
      if (sz < 3 && id[2] == 12) {}
      if (sz == 1) break;
    }
  }
  /* recycled records: every ordered pair of representative keys with different slot positions */
  long rc = 0;
  for (int a = 0; a < 13 && SQ.nfound < 12; a++) for (int b = 0; b < 13; b++) {
    if ((REP[a] & 15) == (REP[b] & 15)) continue;
    int r = c11_recycled_forked(REP[a], REP[b], msg, sizeof msg); rc++; SQ.states++; SQ.evaluations++; SQ.transitions += 6;
    if (r && SQ.nfound < 12) { char key[200]; snprintf(key, sizeof key, "recycled record: first thread leaves a value under key %d (no destructor), second stores only under key %d", REP[a], REP[b]); char arg[80]; snprintf(arg, sizeof arg, "--part c11 --recycled %d:%d", REP[a], REP[b]); sq_found(key, arg, "%s", msg); }
  }
  sq_detail("%ld recycled-record cases; ", rc);
  /* recycled key slots: a key is created (with / without a destructor), deleted, and its slot handed out again with the other choices;
     the exiting thread's destructor calls must follow the registration of the LIVE key only */
  long ks = 0;
  for (int slot = 0; slot < 3 && SQ.nfound < 12; slot++) for (int old_d = 0; old_d < 2; old_d++) for (int new_d = 0; new_d < 2; new_d++) for (int posix = 0; posix < 2; posix++) {
    int pfd[2]; if (pipe(pfd)) continue; fflush(NULL);
    pid_t pid = fork();
    if (pid == 0) {
      close(pfd[0]); char m[300] = ""; int bad = 0;
      myth_tls_key_allocator_init(KA);
      int ks_[20], nk = 0;
      for (int i = 0; i <= 17; i++) ks_[nk++] = myth_tls_key_allocator_alloc(KA, 0);            /* keys 0..17 live, no destructors */
      int victim = slot == 0 ? 0 : (slot == 1 ? 15 : 17);
      myth_tls_key_allocator_dealloc(KA, victim);
      int k1 = myth_tls_key_allocator_alloc(KA, old_d ? d0 : 0);                                   /* first incarnation */
      if (k1 != victim) { snprintf(m, sizeof m, "freed key %d not handed out again (got %d)", victim, k1); bad = 1; }
      myth_tls_key_allocator_dealloc(KA, k1);
      int k2 = myth_tls_key_allocator_alloc(KA, new_d ? d1 : 0);                                   /* second incarnation: the live one */
      if (!bad && k2 != victim) { snprintf(m, sizeof m, "freed key %d not handed out again (got %d)", victim, k2); bad = 1; }
      if (!bad && posix) KA->keys[k2].posix = 1;                                                     /* as myth_key_create_posix_body does */
      static myth_tls_tree_t t[1]; myth_tls_tree_init(t);
      if (!bad) { myth_tls_tree_set(t, k2, (void *)(long)(0x7000 + k2)); ndlog = 0; myth_tls_tree_fini(t, KA);
	int c_old = 0, c_new = 0;
	for (int j = 0; j < ndlog && j < 64; j++) { if (dlog[j].fn == 0) c_old++; if (dlog[j].fn == 1 && dlog[j].val == (void *)(long)(0x7000 + k2)) c_new++; }
	if (c_old) { snprintf(m, sizeof m, "the destructor of the deleted incarnation of key %d was called %d time(s) at thread exit (the live key was registered %s)", k2, c_old, new_d ? "with another destructor" : "without a destructor"); bad = 1; }
	else if (c_new != new_d) { snprintf(m, sizeof m, "the live key %d's destructor was called %d time(s) with its value, expected %d", k2, c_new, new_d); bad = 1; } }
      if (write(pfd[1], m, strlen(m) + 1) < 0) {}
      _exit(bad);
    }
    close(pfd[1]); ssize_t k = read(pfd[0], msg, sizeof msg - 1); if (k < 0) k = 0; msg[k] = 0; close(pfd[0]);
    int st = 0; waitpid(pid, &st, 0); ks++; SQ.states++; SQ.evaluations++; SQ.transitions += 8;
    int r = WIFEXITED(st) ? WEXITSTATUS(st) : 1; if (!WIFEXITED(st) || WEXITSTATUS(st) > 1) snprintf(msg, sizeof msg, "thread exit crashed / sanitizer abort");
    if (r && SQ.nfound < 12) { char key[200]; snprintf(key, sizeof key, "recycled key slot %s: created %s a destructor, deleted, created again %s a destructor%s", slot == 0 ? "0" : slot == 1 ? "15" : "17", old_d ? "with" : "without", new_d ? "with" : "without", posix ? " (POSIX flavour)" : ""); sq_found(key, "--part c11", "%s", msg); }
  }
  sq_detail("%ld recycled-key-slot cases; ", ks);
  sq_detail("%ld destructor cases: every single key 0..1023, every subset of size <= %d of 13 representative keys x destructor mask x NULL/non-NULL mask; each in a forked child under ASan; ", cases, maxsz);
}

/* whole library, one worker: the same walk reached through the three ways a thread can end */
static myth_key_t wk[3]; static int w_n, w_mode;
static void * w_body(void * a) {
  (void)a;
  for (int i = 0; i < w_n; i++) myth_setspecific(wk[i], (void *)(long)(0x7000 + wk[i]));
  if (w_mode == 1) myth_exit((void *)2);
  if (w_mode == 2) { myth_cancel(myth_self()); myth_testcancel(); return (void *)9; }
  return (void *)1;
}
static int c11_whole(const int * keys, int n, int mode, char * msg, size_t msz) {
  int pfd[2]; if (pipe(pfd)) return 2;
  pid_t pid = fork();
  if (pid == 0) {
    close(pfd[0]);
    myth_globalattr_t ga[1]; myth_globalattr_init(ga); myth_globalattr_set_n_workers(ga, 1); myth_init_ex(ga);
    char m[300] = ""; int r = 0;
    int maxk = 0; for (int i = 0; i < n; i++) if (keys[i] > maxk) maxk = keys[i];
    for (int k = 0; k <= maxk; k++) {
      myth_key_t key; void (*d)(void *) = 0; int which = -1;
      for (int i = 0; i < n; i++) if (keys[i] == k) { d = DF[i]; which = i; }
      if (myth_key_create(&key, d) != 0 || (int)key != k) { snprintf(m, sizeof m, "key_create #%d returned key %d", k, (int)key); r = 1; break; }
      if (which >= 0) wk[which] = key;
    }
    w_n = n; w_mode = mode; ndlog = 0;
    if (!r) {
      myth_thread_t t = myth_create(w_body, 0); void * res = 0; myth_join(t, &res);
      void * want_res = mode == 0 ? (void *)1 : mode == 1 ? (void *)2 : MYTH_CANCELED;
      if (res != want_res) { snprintf(m, sizeof m, "join delivered %p, expected %p", res, want_res); r = 1; }
      for (int i = 0; i < n && !r; i++) {
	int calls = 0; for (int j = 0; j < ndlog && j < 64; j++) if (dlog[j].fn == i) { calls++; if (dlog[j].val != (void *)(long)(0x7000 + keys[i])) { snprintf(m, sizeof m, "destructor of key %d called with %p", keys[i], dlog[j].val); r = 1; } }
	if (calls != 1 && !r) { snprintf(m, sizeof m, "destructor of key %d called %d time(s) at thread end (mode %d), expected 1", keys[i], calls, mode); r = 1; }
      }
      if (ndlog != n && !r) { snprintf(m, sizeof m, "%d destructor calls, expected %d", ndlog, n); r = 1; }
    }
    if (write(pfd[1], m, strlen(m) + 1) < 0) {}
    _exit(r);
  }
  close(pfd[1]);
  int st = 0; int hung = sq_wait_child(pid, 90, &st);
  ssize_t k = read(pfd[0], msg, msz - 1); if (k < 0) k = 0; msg[k] = 0; close(pfd[0]);
  if (hung) { snprintf(msg, msz, "thread end hangs"); return 1; }
  if (WIFSIGNALED(st)) { snprintf(msg, msz, "process crashed (signal %d) at thread end", WTERMSIG(st)); return 1; }
  if (WIFEXITED(st) && WEXITSTATUS(st) > 1) { snprintf(msg, msz, "sanitizer abort at thread end (status %d)", WEXITSTATUS(st)); return 1; }
  return WIFEXITED(st) ? WEXITSTATUS(st) : 1;
}
static void c11_library(void) {
  static const int sets[4][3] = { {0, 1, 2}, {3, 17, 40}, {5, 100, 300}, {256, 700, 1023} };
  static const char * const mode_name[] = { "return", "myth_exit", "cancel+testcancel" };
  char msg[400];
  for (int s = 0; s < 4; s++) for (int mode = 0; mode < 3; mode++) {
    int r = c11_whole(sets[s], 3, mode, msg, sizeof msg); SQ.states++; SQ.evaluations++; SQ.transitions += 8;
    if (r) { char key[120]; snprintf(key, sizeof key, "whole library: keys {%d,%d,%d} thread ends by %s", sets[s][0], sets[s][1], sets[s][2], mode_name[mode]); char arg[100]; snprintf(arg, sizeof arg, "--part c11 --whole %d:%d", s, mode); sq_found(key, arg, "%s", msg); }
  }
  sq_sample("whole library, 1 worker: keys {5,100,300} with destructors, thread ends by return / myth_exit / cancel+testcancel");
}

int main(int argc, char ** argv) {
  const char * stats = 0, * part = "c10", * cs = 0, * whole = 0, * recyc = 0; int tier = 0;
  for (int i = 1; i < argc; i++) {
    if (!strcmp(argv[i], "--stats")) stats = argv[++i]; else if (!strcmp(argv[i], "--tier")) tier = !strcmp(argv[++i], "thorough");
    else if (!strcmp(argv[i], "--part")) part = argv[++i]; else if (!strcmp(argv[i], "--case")) cs = argv[++i]; else if (!strcmp(argv[i], "--whole")) whole = argv[++i]; else if (!strcmp(argv[i], "--recycled")) recyc = argv[++i];
  }
  if (cs) {  /* replay one C11 unit case: n:k0,k1,k2:dmask:vmask */
    int n, k[3] = {0, 0, 0}, dm, vm; char msg[400] = "";
    if (sscanf(cs, "%d:%d,%d,%d:%d:%d", &n, &k[0], &k[1], &k[2], &dm, &vm) != 6 && sscanf(cs, "%d:%d:%d:%d", &n, &k[0], &dm, &vm) != 4) return 2;
    int r = c11_forked(k, n, dm, vm, msg, sizeof msg); printf("case %s -> %s %s\n", cs, r ? "VIOLATION" : "ok", msg); return r ? 1 : 0;
  }
  if (recyc) { int a, b; char msg[400] = ""; sscanf(recyc, "%d:%d", &a, &b); int r = c11_recycled_forked(a, b, msg, sizeof msg); printf("recycled %s -> %s %s\n", recyc, r ? "VIOLATION" : "ok", msg); return r ? 1 : 0; }
  if (whole) { static const int sets[4][3] = { {0, 1, 2}, {3, 17, 40}, {5, 100, 300}, {256, 700, 1023} }; int s, m; char msg[400] = ""; sscanf(whole, "%d:%d", &s, &m); int r = c11_whole(sets[s], 3, m, msg, sizeof msg); printf("whole %s -> %s %s\n", whole, r ? "VIOLATION" : "ok", msg); return r ? 1 : 0; }
  char sp[64]; snprintf(sp, sizeof sp, "build/%s/stats.json", part); if (!stats) stats = sp;
  if (!strcmp(part, "c10")) {
    /* the real functions run inside this process: a crash of theirs (a wild read caught by ASan, a segmentation fault) must come out as
       a finding, not as a check that died.  The enumeration runs in a child that notes the phase it is in; the parent judges its end. */
    char * note = mmap(NULL, 4096, PROT_READ | PROT_WRITE, MAP_SHARED | MAP_ANONYMOUS, -1, 0);
    unlink(stats); fflush(NULL);
    pid_t pid = fork();
    if (pid == 0) {
      sq_begin("C10", "c10", "E3 seqmc (bounded exhaustive operation sequences vs dict / live-key-set models; ASan+UBSan)", "replays", argv[0]);
      strcpy(note, "every key singly and in ordered pairs: set then get of all 1024 keys"); c10_single_and_pairs(tier);
      strcpy(note, "set-sequences over 13 representative keys vs a dictionary"); c10_sequences(tier ? 4 : 3);
      strcpy(note, "out-of-range key indices"); c10_range();
      strcpy(note, "key-table create/delete histories"); c10_keytable(tier ? 7 : 6);
      SQ.distinct = SQ.states;
      _exit(sq_end(stats));
    }
    int st = 0; int hung = sq_wait_child(pid, 900, &st);
    if (!hung && WIFEXITED(st) && access(stats, R_OK) == 0) return WEXITSTATUS(st);
    sq_begin("C10", "c10", "E3 seqmc (bounded exhaustive operation sequences vs dict / live-key-set models; ASan+UBSan)", "replays", argv[0]);
    SQ.exhaustive = 0; SQ.states = SQ.evaluations = 1;
    sq_found(note, "--part c10", "the thread-specific-data code %s while the harness ran: %s (wait status 0x%x; AddressSanitizer's report, if any, is on stderr)",
	     hung ? "did not return" : "crashed", note, st);
    return sq_end(stats);
  } else {
    sq_begin("C11", "c11", "E3 seqmc (bounded exhaustive key subsets x destructor masks vs expected call list; ASan+UBSan, one forked child per case)", "replays", argv[0]);
    c11_units(tier); c11_library();
  }
  SQ.distinct = SQ.states;
  return sq_end(stats);
}
