/* C12 / C13 --- ownership of stacks and thread records; every thread reaped exactly once and recycled.
 *
 * A program is a list of main-thread operations:
 *    c<s><b>  create a thread; s = stack code (0 default, 1 4096, 2 8192, 3 12288, 4 65536, 5 20000, 6 70000, 7 16384, 8 4097, 9 20480), n = created detached by
 *             attribute (default stack); b = body: r return at once, y yield once before returning
 *    j<i> t<i> d<i> x<i>   reap the i-th created thread by join / try-join loop / timed-join (then join) / detach
 *    y        main yields
 * The runtime's ledger (fed by the ALLOC/FREE hooks) judges every hand-out and release; this file adds the
 * value oracles (late joins read the right result; detach does not disturb the target) and the quiescence check.
 */
#include "hcommon.h"
#include <pthread.h>

typedef struct { const char * ops; int W, K; int recycle_check; } prog_t;
#define MAXP 600
static prog_t P[2][MAXP]; static int NP[2];
static void add(int tier, const char * ops, int W, int K, int rc) { if (NP[tier] < MAXP) { prog_t * p = &P[tier][NP[tier]++]; p->ops = ops; p->W = W; p->K = K; p->recycle_check = rc; } }

#ifdef PROP_C12
#define PROPID "C12"
#define HNAME "ownership"
static void build(void) {
  static int built; if (built) return; built = 1;
  static const char * const S[] = {
    /* late joins after intervening creations, mixed stack sizes */
    "c0y c0r j1 c0r j0 j2", "c1y c2r j1 c1r j0 j2", "c2y c3r c4r j0 j2 j1", "c4y c0y j1 j0 c4r j2", "c3y c1y y j0 c3r j1 j2",
    "c0y x0 c0r j1 c0r j2", "c2y c2y x1 j0 c2r j2", "c0r c1r c2r j2 j1 j0", "c1y c1y j0 j1 c1y c1r j3 j2",
    /* finisher vs reaper races on one record */
    "c0y j0", "c0y t0", "c0y x0", "c2y x0 c2r j1", "c4y t0 c4r j1", "c0y d0 c0r j1",
    /* a record released by a thread that ended detached (detached while running / created detached) is re-used by a joinable thread
       that finishes before it is joined: the record must stay intact until the late join */
    "c0y x0 y y c0r c0r j2 j1", "cny y y c0r c0r j2 j1", "c0y x0 y y c0r y c0y j1 j2", "cny y c0y c0r y y j2 j1",
    /* release followed at once by reuse on the same worker */
    "c0r j0 c0r j1 c0r j2", "c1r j0 c1r j1 c3r j2 c3r j3", "c0y c0y j0 j1 c0y c0y j3 j2",
    /* sizes that are not a multiple of the page size: the rounded size decides the allocator class */
    "c5r j0 c5r j1 c5y j2 c5r j3", "c6y c5y j1 j0 c6r c5r j2 j3",
    /* different requests that share one allocator size class: 3 pages then 4 pages, 4097 bytes then 2 pages, 5 pages then 8 */
    "c3r j0 c7r j1 c3r j2", "c8r j0 c2r j1 c8y j2", "c9r j0 c4r j1 c9r c3r j3 j2", "c3y c7y j0 j1 c7r c3r j2 j3",
    /* a custom stack that also carries custom data (scheduling hint), recycled as default and as custom stacks afterwards */
    "chr j0 c0y c0y c0y j1 j2 j3", "chy c7r j0 j1 chr c7y j2 j3", "chr j0 chr j1 c0r c7r j2 j3",
    /* a cancellation request sent to a thread that finished and waits for a late join: its record (exit value) stays as it is */
    "c0r y k0 c0r j0 j1", "c0r c2r y k1 k0 j0 j1", "c0y k0 c0r j0 j1", 0 };
  for (int tier = 0; tier < 2; tier++) for (int i = 0; S[i]; i++) for (int W = 1; W <= (tier ? 3 : 2); W++) {
    int len = strlen(S[i]); int K = 2;
    if (tier && len <= 14 && W == 2) K = 3;
    if (W == 3 && len > 20) K = 1;
    add(tier, S[i], W, K, 0);
  }
}
#else
#define PROPID "C13"
#define HNAME "reap"
/* all histories of create/reap cycles of length <= L over the reap modes */
static char hist[4000][40]; static int nh;
static void gen(char * pre, int n, int idx, int L, const char * modes) {
  if (idx > 0) { if (nh < 4000) strcpy(hist[nh++], pre); }
  if (idx == L) return;
  for (const char * m = modes; *m; m++) for (int b = 0; b < 2; b++) {
    char buf[40];
    if (*m == 'n') snprintf(buf, sizeof buf, "%s%scn%c", pre, idx ? " " : "", b ? 'y' : 'r');
    else snprintf(buf, sizeof buf, "%s%sc0%c %c%d", pre, idx ? " " : "", b ? 'y' : 'r', *m, idx);
    if (idx >= 1 && b == 0 && idx + 1 < L) continue;   /* keep the tree small: long histories use yielding bodies */
    gen(buf, n, idx + 1, L, modes);
  }
}
static void build(void) {
  static int built; if (built) return; built = 1;
  for (int tier = 0; tier < 2; tier++) {
    nh = 0; char pre[40] = ""; gen(pre, 0, 0, tier ? 3 : 2, "jtdxn");
    int first = NP[tier];
    for (int i = 0; i < nh; i++) {
      int cycles = 0; for (const char * s = hist[i]; *s; s++) if (*s == 'c') cycles++;
      char * dup = strdup(hist[i]);
      add(tier, dup, 1, cycles >= 3 ? 1 : 2, 1);
      add(tier, dup, 2, cycles >= 3 ? 1 : (tier ? 2 : (cycles == 1 ? 2 : 1)), 0);
    }
    (void)first;
    /* detach after the target finished, detach racing the finish, reap order reversed */
    add(tier, "c0r y x0", 1, 2, 0); add(tier, "c0r y x0", 2, 2, 0); add(tier, "c0y x0 y y", 2, tier ? 3 : 2, 0);
    add(tier, "c0y c0y x1 j0", 2, 2, 0); add(tier, "c0y c0y t1 x0", 2, tier ? 2 : 1, 0); add(tier, "cny cny y", 2, 2, 0);
    add(tier, "c0y d0 c0y x1 y y c0r t2", 1, 2, 1);
    /* a cancellation request for a thread that has already finished (or never tests for it), then the reap; a thread whose end runs a
       destructor that yields, reaped while it is in there */
    for (int W = 1; W <= 2; W++) {
      add(tier, "c0r y k0 j0", W, 1, 0); add(tier, "c0r y k0 t0", W, 1, 0); add(tier, "c0r y k0 x0 c0r j1", W, 1, 0); add(tier, "c0y k0 j0", W, 2, 0); add(tier, "c0r y k0 d0 c0r j1", W, 1, 0);
      add(tier, "c0d j0", W, 2, 0); add(tier, "c0d t0", W, 2, 0); add(tier, "c0d d0", W, W == 1 ? 2 : 1, 0); add(tier, "c0d x0 y y y", W, 1, 0); add(tier, "c0d y k0 j0", W, 1, 0);
    }
    /* the target is itself blocked in a join when it is try-joined / timed-joined / joined / detached */
    for (int W = 1; W <= 2; W++) { add(tier, "c0n t0", W, 2, 0); add(tier, "c0n d0", W, 2, 0); add(tier, "c0n j0", W, W == 1 ? 2 : 1, 0); add(tier, "c0n x0 y y y", W, 1, 0); add(tier, "c0n y t0 c0r j1", W, 1, 0); }
  }
}
#endif

static int nprogs(int tier) { build(); return NP[tier]; }
static void config(int tier, int prog, int * W, int * K) { build(); *W = P[tier][prog].W; *K = P[tier][prog].K; }
static void describe(int tier, int prog, char * b, size_t n) { build(); snprintf(b, n, "%s", P[tier][prog].ops); }

static prog_t * cur;
static myth_thread_t th[8]; static int nth, detached_attr[8], reaped[8], yields_in_body[8];
static volatile int fin[8], started[8]; static int has_hint[8];
static const size_t stack_of[] = { 0, 4096, 8192, 12288, 65536, 20000, 70000, 16384, 4097, 20480 };

static myth_key_t ykey13; static volatile int ydtor13;
static void ydtor(void * v) { (void)v; myth_yield(); myth_yield(); ydtor13++; }
static void * nested_child(void * a) { (void)a; myth_yield(); myth_yield(); return (void *)4242; }
static void * body(void * a) {
  int i = (int)(long)a;
  volatile unsigned char canary[96];
  started[i]++;
  if (has_hint[i]) h_check_hint();
  for (int k = 0; k < 96; k++) canary[k] = (unsigned char)(i * 7 + k);
  if (yields_in_body[i] == 2) {   /* nested: the thread itself blocks in a join of a child that yields (status "blocked" while it waits) */
    myth_thread_t c = myth_create(nested_child, 0); void * r = 0; myth_join(c, &r); MV_CHECK(r == (void *)4242, "nested child delivered %p", r);
  } else if (yields_in_body[i] == 3) myth_setspecific(ykey13, (void *)(long)(i + 1));   /* the thread's end runs a destructor that yields: reaping may be attempted while it is in there */
  else if (yields_in_body[i]) myth_yield();
  for (int k = 0; k < 96; k++) MV_CHECK(canary[k] == (unsigned char)(i * 7 + k), "thread %d: local data changed across a switch (stack reused or overwritten while in use)", i);
  mv_point(&fin[i], sizeof(int));
  fin[i] = 1;
  return (void *)(long)(5000 + i);
}

static void check_result(int i, void * r, const char * how) {
  MV_CHECK(fin[i] == 1, "%s of thread %d succeeded before its function finished", how, i);
  MV_CHECK((long)r == 5000 + i, "%s of thread %d delivered %ld instead of %d (record reused or released before it was reaped)", how, i, (long)r, 5000 + i);
  MV_CHECK(started[i] == 1, "thread %d ran %d times", i, started[i]);
}

static void run(int tier, int prog) {
  build(); cur = &P[tier][prog];
  mv_start(cur->W);
  myth_key_create(&ykey13, ydtor);
  long base_d = mv_ledger_outstanding(0), base_s = mv_ledger_outstanding(1);
  long fresh_after_first_d = -1, fresh_after_first_s = -1; int reaps = 0;
  char buf[64]; strncpy(buf, cur->ops, sizeof buf - 1); buf[63] = 0;
  for (char * tok = strtok(buf, " "); tok; tok = strtok(NULL, " ")) {
    int i = tok[1] - '0';
    void * r = (void *)-1L;
    switch (tok[0]) {
    case 'c': {
      int me = nth++;
      yields_in_body[me] = tok[2] == 'y' ? 1 : (tok[2] == 'n' ? 2 : (tok[2] == 'd' ? 3 : 0));
      if (tok[1] == 'n') {
	myth_thread_attr_t a; memset(&a, 0x5A, sizeof a); myth_thread_attr_init(&a);
	myth_thread_attr_setdetachstate(&a, PTHREAD_CREATE_DETACHED);
	detached_attr[me] = 1;
	int rc = myth_create_ex(&th[me], &a, body, (void *)(long)me); MV_CHECK(rc == 0, "create_ex failed");
	reaped[me] = 1; mv_cover(5);
      } else if (tok[1] == '0') { th[me] = myth_create(body, (void *)(long)me); }
      else if (tok[1] == 'h') { int rc = h_spawn(V_EX_HINT, &th[me], body, (void *)(long)me); MV_CHECK(rc == 0, "create_ex failed"); has_hint[me] = 1; mv_cover(6); }
      else {
	myth_thread_attr_t a; memset(&a, 0x5A, sizeof a); myth_thread_attr_init(&a);
	myth_thread_attr_setstacksize(&a, stack_of[tok[1] - '0']);
	int rc = myth_create_ex(&th[me], &a, body, (void *)(long)me); MV_CHECK(rc == 0, "create_ex failed");
	mv_cover(6);
      }
      break; }
    case 'j': { int rc = myth_join(th[i], &r); MV_CHECK(rc == 0, "join returned %d", rc); check_result(i, r, "join"); reaped[i] = 1; mv_cover(0); break; }
    case 't': {
      for (;;) {
	int st0 = mythv_desc_status(th[i]);
	int rc = myth_tryjoin(th[i], &r);
	MV_CHECK(rc == 0 || rc == EBUSY, "tryjoin returned %d", rc);
	if (rc == 0) { check_result(i, r, "try-join"); break; }
	MV_CHECK(st0 != 3, "try-join reported busy although the target had finished before the call");
	mv_cover(1);
	mv_wait_until_changed(mythv_desc_status_ptr(th[i]), sizeof(int));
      }
      reaped[i] = 1; mv_cover(2); break; }
    case 'd': {
      struct timespec dl; mv_clock_read(&dl); dl.tv_nsec += 6000;
      int rc = myth_timedjoin(th[i], &r, &dl);
      if (rc == 0) { check_result(i, r, "timed-join"); mv_cover(3); }
      else {
	struct timespec nowts; mv_clock_read(&nowts);
	MV_CHECK(rc == EBUSY || rc == ETIMEDOUT, "timedjoin returned %d", rc);
	MV_CHECK(nowts.tv_sec > dl.tv_sec || (nowts.tv_sec == dl.tv_sec && nowts.tv_nsec > dl.tv_nsec), "timed-join gave up before its deadline");
	mv_cover(4);
	rc = myth_join(th[i], &r); MV_CHECK(rc == 0, "join after timed-out timed-join returned %d", rc); check_result(i, r, "join after timed-join");
      }
      reaped[i] = 1; break; }
    case 'x': { int f0 = fin[i]; int rc = myth_detach(th[i]); MV_CHECK(rc == 0, "detach returned %d", rc); reaped[i] = 1; mv_cover(f0 ? 7 : 8); break; }
    case 'k': { int rc = myth_cancel(th[i]); MV_CHECK(rc == 0, "myth_cancel returned %d", rc); break; }   /* a cancellation request: no effect on a thread that has finished or never tests for it */
    case 'y': myth_yield(); break;
    }
    if (tok[0] != 'c' && tok[0] != 'y' && tok[0] != 'k') {
      reaps++;
      if (cur->recycle_check) {
	/* let a detached target finish and release its record and stack before the snapshot / before the next creation:
	   "reaping recycles" can only be judged for creations that follow a completed reap */
	while (!fin[i]) mv_wait_until_changed(&fin[i], sizeof(int));
	mv_quiesce();
	if (reaps == 1) { fresh_after_first_d = mv_ledger_fresh(0); fresh_after_first_s = mv_ledger_fresh(1); }
      }
    } else if (tok[0] == 'c' && tok[1] == 'n' && cur->recycle_check) {
      int me = nth - 1;   /* created detached: it reaps itself; same reasoning */
      while (!fin[me]) mv_wait_until_changed(&fin[me], sizeof(int));
      mv_quiesce();
    }
  }
  /* quiescence: every thread finished, detached ones released their record themselves */
  for (int i = 0; i < nth; i++) {
    MV_CHECK(reaped[i], "harness error: thread %d never reaped by the program", i);
    while (!fin[i]) mv_wait_until_changed(&fin[i], sizeof(int));
  }
  volatile long * od = mv_ledger_out_ptr(0), * os = mv_ledger_out_ptr(1);
  /* a detached finisher may still be between 'function returned' and 'record released' on another worker */
  mv_quiesce();
  MV_CHECK(*os == base_s, "%ld stack(s) never returned to an allocator after every thread was reaped", *os - base_s);
  MV_CHECK(*od == base_d, "%ld thread record(s) never released although every thread was joined, detached or created detached", *od - base_d);
  if (cur->recycle_check && fresh_after_first_d >= 0) {
    /* a stack prepared through an attribute object comes from the size-class allocator, a default one from the
       default-stack list: one fresh stack per kind is legitimate, records are all of one kind */
    int kinds = 0, seen_kind[80] = {0};
    for (const char * q = cur->ops; *q; q++) if (*q == 'c') { int k = (q[1] - '0') & 63; if (!seen_kind[k]) { seen_kind[k] = 1; kinds++; } }
    MV_CHECK(mv_ledger_fresh(0) == fresh_after_first_d && mv_ledger_fresh(1) <= kinds,
	     "create/reap cycles on one worker needed fresh memory after the first cycle (records %ld -> %ld, stacks %ld -> %ld with %d stack kinds): reaping does not recycle",
	     fresh_after_first_d, mv_ledger_fresh(0), fresh_after_first_s, mv_ledger_fresh(1), kinds);
  }
  for (int i = 0; i < nth; i++) MV_CHECK(started[i] == 1 && fin[i] == 1, "thread %d started %d times, finished %d", i, started[i], fin[i]);
  mv_obs("threads=%d fresh=%ld/%ld", nth, mv_ledger_fresh(0), mv_ledger_fresh(1));
  mv_finish();
}
static const char * const cover_names[] = { "join", "tryjoin_busy", "tryjoin_ok", "timedjoin_ok", "timedjoin_timeout", "created_detached", "custom_stack", "detach_after_finish", "detach_before_finish", 0 };
#ifdef PROP_C12
static uint64_t cover_required(int tier) { (void)tier; return (1 << 0) | (1 << 2) | (1 << 6) | (1 << 8); }
#else
static uint64_t cover_required(int tier) { (void)tier; return 0x1ff & ~(1 << 6); }
#endif
mc_harness_t mc_harness = { PROPID, HNAME, nprogs, describe, config, run, cover_names, cover_required };
