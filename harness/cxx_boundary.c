/* Wake-ups across the run queue's storage boundary, for the blocking primitives (C04 mutex, C05 condition variable,
 * C06 barrier, C08 uncondition variable, C09 full/empty lock), selected with -DBND_PROP=4|5|6|8|9.
 *
 * Built with an 8-entry run queue (EXTRA_LIB_DEFS=-DMYTH_VERIF_QUEUE_SIZE=8).  A waker thread that KEEPS ITS WORKER (it spins
 * without yielding between the wake-up and the waiter's acknowledgement) wakes one waiter N times; every woken waiter
 * lands in the waker's run queue and has to be taken from there by the other worker, so the queue's window creeps up
 * by one entry per round and is re-centred after a handful of rounds.  Property clause exercised: a thread woken by
 * the primitive is resumed (exactly once), also when the wake-up pushes at the end of the queue storage.
 */
#include "hcommon.h"
#ifndef BND_PROP
#define BND_PROP 4
#endif
#define STR_(x) #x
#define STR(x) STR_(x)
#if BND_PROP < 10
#define PROPID "C0" STR(BND_PROP)
#else
#define PROPID "C" STR(BND_PROP)
#endif

typedef struct { int n, K; } prog_t;
static const prog_t P[2][3] = { { { 7, 1 }, { 12, 0 }, { 12, 1 } }, { { 7, 2 }, { 12, 1 }, { 20, 1 } } };
static int nprogs(int tier) { (void)tier; return 3; }
static void config(int tier, int prog, int * W, int * K) { *W = 2; *K = P[tier][prog].K; }
static void describe(int tier, int prog, char * b, size_t n) {
  snprintf(b, n, "waker keeps its worker; %d wake-ups of one waiter across the boundary of an 8-entry run queue", P[tier][prog].n);
}

static const prog_t * cur;
static volatile int ack, armed, sig, resumed_total;
static myth_mutex_t m; static myth_cond_t cv; static myth_barrier_t bar; static myth_uncond_t un; static myth_felock_t fe;
static volatile long slot;

/* ---- the waiter's blocking step of round r and the waker's wake-up of round r, per primitive ---- */
#if BND_PROP == 4
/* the waker holds the mutex; the waiter blocks in lock; unlock wakes it */
static void waker_prepare(int r) { (void)r; myth_mutex_lock(&m); mv_point(&armed, sizeof armed); armed = r; }
static void waiter_block(int r) { while (armed < r) mv_spin_until_changed(&armed, sizeof armed); myth_mutex_lock(&m); myth_mutex_unlock(&m); }
static int waiter_is_blocked(void) { return (m.state >> 1) != 0; }
static const volatile void * blocked_word(void) { return &m.state; }
#define BLOCKED_SZ sizeof m.state
static void wake(int r) { (void)r; myth_mutex_unlock(&m); }
#elif BND_PROP == 5
static void waker_prepare(int r) { (void)r; }
static void waiter_block(int r) { myth_mutex_lock(&m); mv_point(&armed, sizeof armed); armed = r; while (sig < r) myth_cond_wait(&cv, &m); myth_mutex_unlock(&m); }
static int waiter_is_blocked(void) { return 1; }    /* decided under the mutex in wake() */
static const volatile void * blocked_word(void) { return &armed; }
static void wake(int r) {
  while (armed < r) mv_spin_until_changed(&armed, sizeof armed);
  myth_mutex_lock(&m);          /* the waiter set armed under the mutex and released it only by waiting */
  sig = r; myth_cond_signal(&cv);
  myth_mutex_unlock(&m);
}
#elif BND_PROP == 6
/* two participants; the waiter arrives first and blocks, the waker arrives last and releases it */
static void waker_prepare(int r) { (void)r; }
static void waiter_block(int r) { mv_point(&armed, sizeof armed); armed = r; myth_barrier_wait(&bar); }
static int waiter_is_blocked(void) { return 1; }
static const volatile void * blocked_word(void) { return &armed; }
static void wake(int r) {
  while (armed < r) mv_spin_until_changed(&armed, sizeof armed);
  myth_barrier_wait(&bar);      /* whoever is last wakes the other; if the waiter has not blocked yet the waker blocks instead */
}
#elif BND_PROP == 8
/* documented protocol: the waiter announces itself with a CAS, then waits; the signaler signals only after it saw the announcement */
static void waker_prepare(int r) { (void)r; }
static void waiter_block(int r) { mv_point(&slot, sizeof slot); long ok = __sync_bool_compare_and_swap(&slot, 0, r); MV_CHECK(ok, "harness: slot busy"); myth_uncond_wait(&un); }
static int waiter_is_blocked(void) { return 1; }
static const volatile void * blocked_word(void) { return &slot; }
static void wake(int r) {
  while (slot != r) mv_spin_until_changed(&slot, sizeof slot);
  mv_point(&slot, sizeof slot); slot = 0;
  myth_uncond_signal(&un);
}
#elif BND_PROP == 9
/* the waiter waits for status 1; the waker publishes it; the waiter then resets the status to 0 */
static void waker_prepare(int r) { (void)r; }
static void waiter_block(int r) { mv_point(&armed, sizeof armed); armed = r; myth_felock_wait_and_lock(&fe, 1); myth_felock_mark_and_signal(&fe, 0); }
static int waiter_is_blocked(void) { return 1; }
static const volatile void * blocked_word(void) { return &armed; }
static void wake(int r) {
  while (armed < r) mv_spin_until_changed(&armed, sizeof armed);
  myth_felock_wait_and_lock(&fe, 0); myth_felock_mark_and_signal(&fe, 1);
}
#else
#error "BND_PROP must be 4, 5, 6, 8 or 9"
#endif

#ifndef BLOCKED_SZ
#define BLOCKED_SZ sizeof(int)
#endif
static void * waiter(void * a) {
  (void)a;
  for (int r = 1; r <= cur->n; r++) {
    waiter_block(r);
    resumed_total++;
    mv_point(&ack, sizeof ack); ack = r;
  }
  return (void *)1;
}
static void * waker(void * a) {
  (void)a;
  for (int r = 1; r <= cur->n; r++) {
    waker_prepare(r);
    while (!waiter_is_blocked()) mv_spin_until_changed(blocked_word(), BLOCKED_SZ);
    wake(r);
    while (ack < r) mv_spin_until_changed(&ack, sizeof ack);      /* keeps the worker: the woken waiter has to be taken by the other one */
  }
  return (void *)2;
}
static void run(int tier, int prog) {
  cur = &P[tier][prog];
  mv_start(2);
  myth_mutex_init(&m, 0); myth_cond_init(&cv, 0); myth_barrier_init(&bar, 0, 2); myth_uncond_init(&un); myth_felock_init(&fe, 0);
  myth_thread_t tw = myth_create(waker, 0), tt = myth_create(waiter, 0);
  void * r1 = 0, * r2 = 0;
  myth_join(tw, &r1); myth_join(tt, &r2);
  MV_CHECK(r1 == (void *)2 && r2 == (void *)1, "join values %p %p", r1, r2);
  MV_CHECK(ack == cur->n && resumed_total == cur->n, "%d of %d wake-ups reached the waiter", resumed_total, cur->n);
  mv_obs("rounds=%d main on w%d", cur->n, mv_worker());
  mv_finish();
}
static uint64_t cover_required(int tier) { (void)tier; return 0; }
mc_harness_t mc_harness = { PROPID, "boundary", nprogs, describe, config, run, 0, cover_required };
