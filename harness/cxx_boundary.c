/* Wake-ups across the run queue's storage boundary, for the blocking primitives (C04 mutex, C05 condition variable,
 * C06 barrier, C08 uncondition variable, C09 full/empty lock), selected with -DBND_PROP=4|5|6|8|9.
 *
 * Built with an 8-entry run queue (EXTRA_LIB_DEFS=-DMYTH_VERIF_QUEUE_SIZE=8).  A waker thread that KEEPS ITS WORKER (it spins
 * without yielding between the wake-up and the waiter's acknowledgement) wakes N waiters one after the other (one thread per round, all alive until the end); every woken waiter
 * lands in the waker's run queue and has to be taken from there by the other worker, so the queue's window creeps up
 * by one entry per round and is re-centred after a handful of rounds.  Property clause exercised: a thread woken by
 * the primitive is resumed (exactly once), also when the wake-up pushes at the end of the queue storage.
 */
#include "hcommon.h"
#ifndef BND_PROP
#define BND_PROP 4
#endif
#define STR_(x) #x
#define STR(x) STR_(x)
#if BND_PROP < 10
#define PROPID "C0" STR(BND_PROP)
#else
#define PROPID "C" STR(BND_PROP)
#endif

typedef struct { int n, K; } prog_t;
/* programs 0-2: single wake-ups in pairs; programs 3-4 (condition variable and barrier only): a burst - one call releases n sleepers at
   once, so that the re-centring of the 8-entry queue happens with several woken threads queued while the other worker takes from it */
static const prog_t P[2][5] = { { { 7, 1 }, { 12, 0 }, { 14, 1 }, { 5, BND_PROP == 5 ? 1 : 2 }, { 6, 1 } }, { { 7, 2 }, { 14, 1 }, { 22, 1 }, { 5, 2 }, { 6, 2 } } };
#if BND_PROP == 5 || BND_PROP == 6
#define NPROGS 5
#else
#define NPROGS 3
#endif
static int nprogs(int tier) { (void)tier; return NPROGS; }
static void config(int tier, int prog, int * W, int * K) { *W = 2; *K = P[tier][prog].K; }
static void describe(int tier, int prog, char * b, size_t n) {
  if (prog >= 3) { snprintf(b, n, "burst: one %s releases %d sleepers at once, 3 rounds, 8-entry run queue", BND_PROP == 5 ? "broadcast" : "barrier arrival", P[tier][prog].n); return; }
  snprintf(b, n, "waker keeps its worker; %d wake-ups (one waiter thread each) across the boundary of an 8-entry run queue", P[tier][prog].n);
}

static const prog_t * cur;
#define MAXN 24
static volatile int ack, nready, sig, resumed_total;
static myth_mutex_t m[MAXN + 1]; static myth_cond_t cv[MAXN + 1]; static myth_barrier_t bar[MAXN + 1]; static myth_uncond_t un[MAXN + 1]; static myth_felock_t fe[MAXN + 1];
static volatile long slot[MAXN + 1];

/* One waiter thread per round (all alive until the end, so that the entries the run queue has held are all different threads); waiter r
   blocks once on resource r.  Per primitive: how waiter r blocks, how the waker knows that everybody is in place, how it wakes waiter r. */
#if BND_PROP == 4
/* the waker holds every mutex; waiter r blocks in lock(m[r]); unlock(m[r]) wakes it */
static void waker_setup(int n) { for (int r = 1; r <= n; r++) myth_mutex_lock(&m[r]); }
static void waiter_block(int r) { mv_point(&nready, sizeof nready); __sync_fetch_and_add(&nready, 1); myth_mutex_lock(&m[r]); myth_mutex_unlock(&m[r]); }
static int all_in_place(int n) { if (nready < n) return 0; for (int r = 1; r <= n; r++) if ((m[r].state >> 1) == 0) return 0; return 1; }
static void wake(int r) { myth_mutex_unlock(&m[r]); }
#elif BND_PROP == 5
static void waker_setup(int n) { (void)n; }
static void waiter_block(int r) { myth_mutex_lock(&m[0]); mv_point(&nready, sizeof nready); nready++; while (sig < r) myth_cond_wait(&cv[r], &m[0]); myth_mutex_unlock(&m[0]); }
static int all_in_place(int n) { return nready == n; }    /* counted under the mutex, which a waiter gives up only by waiting */
static void wake(int r) { myth_mutex_lock(&m[0]); sig = r; myth_cond_signal(&cv[r]); myth_mutex_unlock(&m[0]); }
#elif BND_PROP == 6
/* barrier r has two participants: waiter r arrives first and blocks, the waker arrives last and releases it */
static void waker_setup(int n) { (void)n; }
static void waiter_block(int r) { mv_point(&nready, sizeof nready); __sync_fetch_and_add(&nready, 1); myth_barrier_wait(&bar[r]); }
static int all_in_place(int n) { return nready == n; }
static void wake(int r) { myth_barrier_wait(&bar[r]); }
#elif BND_PROP == 8
/* documented protocol: the waiter announces itself with a CAS, then waits; the signaler signals only after it saw the announcement */
static void waker_setup(int n) { (void)n; }
static void waiter_block(int r) { mv_point(&nready, sizeof nready); __sync_fetch_and_add(&nready, 1); mv_point(&slot[r], sizeof slot[r]); long ok = __sync_bool_compare_and_swap(&slot[r], 0, 1); MV_CHECK(ok, "harness: slot busy"); myth_uncond_wait(&un[r]); }
static int all_in_place(int n) { if (nready < n) return 0; for (int r = 1; r <= n; r++) if (!slot[r]) return 0; return 1; }
static void wake(int r) { mv_point(&slot[r], sizeof slot[r]); slot[r] = 0; myth_uncond_signal(&un[r]); }
#elif BND_PROP == 9
/* waiter r waits for status 1 of cell r; the waker publishes it */
static void waker_setup(int n) { (void)n; }
static void waiter_block(int r) { mv_point(&nready, sizeof nready); __sync_fetch_and_add(&nready, 1); myth_felock_wait_and_lock(&fe[r], 1); myth_felock_mark_and_signal(&fe[r], 0); }
static int all_in_place(int n) { return nready == n; }
static void wake(int r) { myth_felock_wait_and_lock(&fe[r], 0); myth_felock_mark_and_signal(&fe[r], 1); }
#else
#error "BND_PROP must be 4, 5, 6, 8 or 9"
#endif

static volatile int woke[MAXN + 1], setup_done;
static void * waiter(void * a) {
  int r = (int)(long)a;
  waiter_block(r);
  MV_CHECK(woke[r] == 1, "waiter %d resumed although its wake-up had not been issued (woken in place of another thread?)", r);
  resumed_total++;
  mv_point(&ack, sizeof ack); __sync_fetch_and_add(&ack, 1);
  return (void *)(long)(100 + r);
}
static void * waker(void * a) {
  (void)a;
  int n = cur->n;
  waker_setup(n);
  mv_point(&setup_done, sizeof setup_done); setup_done = 1;
  while (nready < n) mv_wait_until_changed(&nready, sizeof nready);     /* the waiters are still being created: let them run */
  while (!all_in_place(n)) myth_yield();                                 /* the last one is between its announcement and its blocking step */
  /* two wake-ups back to back, so that the second push finds the first woken thread still queued (also when that push re-centres the
     storage), then keep the worker until both have run somewhere else */
  for (int r = 1; r <= n; r += 2) {
    for (int k = r; k <= r + 1 && k <= n; k++) { mv_point(&woke[k], sizeof woke[k]); woke[k] = 1; wake(k); }
    int want = r + 1 <= n ? r + 1 : n;
    while (ack < want) mv_spin_until_changed(&ack, sizeof ack);
  }
  return (void *)2;
}
#if BND_PROP == 5 || BND_PROP == 6
/* burst programs */
static volatile int b_round, b_waiting, b_passed[4], b_serial[4];
static myth_mutex_t bm; static myth_cond_t bc; static myth_barrier_t bb;
static void * burst_waiter(void * a) {
  (void)a;
  for (int r = 1; r <= 3; r++) {
#if BND_PROP == 5
    myth_mutex_lock(&bm); b_waiting++; while (b_round < r) myth_cond_wait(&bc, &bm); b_passed[r]++; myth_mutex_unlock(&bm);
#else
    int s = myth_barrier_wait(&bb);
    MV_CHECK(s == 0 || s == MYTH_BARRIER_SERIAL_THREAD, "barrier_wait returned %d", s);
    mv_point(&b_passed[r], sizeof(int)); __sync_fetch_and_add(&b_passed[r], 1); if (s) __sync_fetch_and_add(&b_serial[r], 1);
#endif
  }
  return (void *)7;
}
static void run_burst(int n) {
  myth_thread_t tt[8];
  myth_mutex_init(&bm, 0); myth_cond_init(&bc, 0); myth_barrier_init(&bb, 0, n + 1);
  for (int i = 0; i < n; i++) tt[i] = myth_create(burst_waiter, 0);
  for (int r = 1; r <= 3; r++) {
#if BND_PROP == 5
    for (;;) { myth_mutex_lock(&bm); int w = b_waiting; myth_mutex_unlock(&bm); if (w >= n * r) break; myth_yield(); }   /* everybody waits for round r */
    myth_mutex_lock(&bm); b_round = r; myth_cond_broadcast(&bc); myth_mutex_unlock(&bm);
#else
    int s = myth_barrier_wait(&bb);
    mv_point(&b_passed[r], sizeof(int)); __sync_fetch_and_add(&b_passed[r], 1); if (s) __sync_fetch_and_add(&b_serial[r], 1);
#endif
  }
  for (int i = 0; i < n; i++) { void * rr = 0; myth_join(tt[i], &rr); MV_CHECK(rr == (void *)7, "a released thread ended with %p (run twice, or resumed in the place of another?)", rr); }
  for (int r = 1; r <= 3; r++) {
#if BND_PROP == 5
    MV_CHECK(b_passed[r] == n, "round %d: %d of %d waiters passed after the broadcast", r, b_passed[r], n);
#else
    MV_CHECK(b_passed[r] == n + 1 && b_serial[r] == 1, "round %d: %d of %d participants returned, %d of them as the serial thread", r, b_passed[r], n + 1, b_serial[r]);
#endif
  }
  mv_obs("burst n=%d main on w%d", n, mv_worker());
  mv_finish();
}
#endif
static void run(int tier, int prog) {
  cur = &P[tier][prog];
  int n = cur->n;
  mv_start(2);
#if BND_PROP == 5 || BND_PROP == 6
  if (prog >= 3) { run_burst(n); return; }
#endif
  for (int r = 0; r <= n; r++) { myth_mutex_init(&m[r], 0); myth_cond_init(&cv[r], 0); myth_barrier_init(&bar[r], 0, 2); myth_uncond_init(&un[r]); myth_felock_init(&fe[r], 0); }
  myth_thread_t tw = myth_create(waker, 0), tt[MAXN + 1];
  while (!setup_done) mv_wait_until_changed(&setup_done, sizeof setup_done);
  for (int r = 1; r <= n; r++) tt[r] = myth_create(waiter, (void *)(long)r);
  void * r1 = 0;
  myth_join(tw, &r1); MV_CHECK(r1 == (void *)2, "join value of the waker %p", r1);
  for (int r = 1; r <= n; r++) { void * rr = 0; myth_join(tt[r], &rr); MV_CHECK((long)rr == 100 + r, "join value of waiter %d: %ld", r, (long)rr); }
  MV_CHECK(ack == n && resumed_total == n, "%d of %d wake-ups reached their waiter", resumed_total, n);
  mv_obs("rounds=%d main on w%d", n, mv_worker());
  mv_finish();
}
static uint64_t cover_required(int tier) { (void)tier; return 0; }
mc_harness_t mc_harness = { PROPID, "boundary", nprogs, describe, config, run, 0, cover_required };
