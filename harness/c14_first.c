/* C14 (E3 part) --- myth_once as the very first library call of a process (and as the first call after myth_fini), with an init routine that
 * starts the library itself: it creates threads that call myth_once on the same control.  One process per case; all small combinations
 * of {fresh process, after init+fini} x {number of nested callers 1..3} x {routine yields or not} x {workers 1, 2, 4}. */
#include <stdio.h>
#include <stdlib.h>
#include <string.h>
#include <unistd.h>
#include <sys/wait.h>
#include "myth/myth.h"
#include "seqmc.h"
static myth_once_t ctl = { myth_once_state_init }; static volatile int runs, done, early, nested, yields;
static void init_routine(void);
static void * nested_caller(void * a) { (void)a; myth_once(&ctl, init_routine); if (!done) early++; return 0; }
static void init_routine(void) {
  runs++;
  myth_thread_t t[3];
  for (int i = 0; i < nested; i++) t[i] = myth_create(nested_caller, 0);     /* they find the control "in progress" and must wait */
  if (yields) myth_yield();
  done = 1;                                                                   /* everything the routine publishes is there from here on */
  (void)t;
}
static void * nop(void * a) { return a; }
int main(int argc, char ** argv) {
  const char * stats = "build/c14first/stats.json"; int tier = 0;
  for (int i = 1; i < argc; i++) { if (!strcmp(argv[i], "--stats")) stats = argv[++i]; else if (!strcmp(argv[i], "--tier")) tier = !strcmp(argv[++i], "thorough"); }
  sq_begin("C14", "c14first", "E3 seqmc (bounded exhaustive first-use cases, one process each)", "replays", argv[0]);
  if (!freopen("/dev/null", "w", stderr)) {}
  static const int WS[3] = { 1, 2, 4 };
  for (int after = 0; after < 2; after++) for (int nn = 1; nn <= 3; nn++) for (int y = 0; y < 2; y++) for (int wi = 0; wi < (tier ? 3 : 2); wi++) {
    int pfd[2]; if (pipe(pfd)) continue; fflush(NULL);
    pid_t pid = fork();
    if (pid == 0) {
      close(pfd[0]); char m[200] = ""; int bad = 0; char wb[8]; snprintf(wb, sizeof wb, "%d", WS[wi]);
      setenv("MYTH_NUM_WORKERS", wb, 1); setenv("MYTH_BIND_WORKERS", "0", 1);
      nested = nn; yields = y;
      if (after) { myth_init(); myth_thread_t t = myth_create(nop, 0); myth_join(t, 0); myth_fini(); }
      myth_once(&ctl, init_routine);                      /* the first library call of this life of the library */
      if (!done) { bad = 1; snprintf(m, sizeof m, "myth_once returned before the init routine had completed"); }
      for (int k = 0; k < 50 && !bad; k++) myth_yield();   /* let the nested callers finish */
      myth_once(&ctl, init_routine);                      /* a later call returns at once */
      if (!bad && runs != 1) { bad = 1; snprintf(m, sizeof m, "the init routine ran %d times (%d nested callers on the same control)", runs, nn); }
      if (!bad && early) { bad = 1; snprintf(m, sizeof m, "%d nested caller(s) returned from myth_once before the routine had completed", early); }
      if (write(pfd[1], m, strlen(m) + 1) < 0) {}
      _exit(bad);
    }
    close(pfd[1]);
    int st; int hung = sq_wait_child(pid, 60, &st); char msg[300] = ""; ssize_t k = read(pfd[0], msg, sizeof msg - 1); if (k < 0) k = 0; msg[k] = 0; close(pfd[0]);
    SQ.states++; SQ.evaluations++; SQ.transitions += 4 + nn;
    if (hung || !WIFEXITED(st) || WEXITSTATUS(st)) {
      char key[200]; snprintf(key, sizeof key, "myth_once as the first library call %s; its init routine creates %d thread(s) that call myth_once on the same control%s; %d worker(s)", after ? "after init + fini" : "of the process", nn, y ? " and yields" : "", WS[wi]);
      sq_found(key, "", "%s", hung ? "the process hangs" : !WIFEXITED(st) ? "the process crashes" : msg[0] ? msg : "the process exited with a failure status inside the library");
    }
  }
  SQ.distinct = SQ.states;
  sq_sample("fresh process, MYTH_NUM_WORKERS=2: myth_once(ctl, r) where r creates 2 threads calling myth_once(ctl, r), then yields");
  sq_detail("first-use cases: {fresh, after init+fini} x nested callers 1..3 x routine yields or not x workers");
  return sq_end(stats);
}
