/* C20 --- sleeping and timed waits respect their deadlines (virtual clock owned by the explorer:
 * every clock read is a decision, default +1 tick (1 us), deviation = jump by 1 s). */
#include "hcommon.h"
#include <unistd.h>
enum { FM_SLEEP, FM_TLOCK, FM_TJOIN, FM_TLOCKQ, FM_LONG, FM_TWOSLEEP };
/* deadline codes: 0 = one second in the past, 1 = now, 2 = now + 3 ticks, 3 = now + 8 ticks */
typedef struct { int fam, a, dl, W, K; } prog_t;
#define MAXP 200
static prog_t P[2][MAXP]; static int NP[2];
static void add(int tier, int fam, int a, int dl, int W, int K) { if (NP[tier] < MAXP) { prog_t * p = &P[tier][NP[tier]++]; p->fam = fam; p->a = a; p->dl = dl; p->W = W; p->K = K; } }
static void build(void) {
  static int built; if (built) return; built = 1;
  for (int tier = 0; tier < 2; tier++) for (int W = 1; W <= 2; W++) {
    int K = tier ? 3 : 2;
    for (int a = 0; a < 4; a++) add(tier, FM_SLEEP, a, 0, W, a == 3 ? 2 : K);
    add(tier, FM_SLEEP, 5, 0, W, tier ? 2 : 1);   /* a: 5 nanosleep(3us) with the remainder written over the request (nanosleep(&ts, &ts)) */
    add(tier, FM_SLEEP, 4, 0, W, 2);   /* a: 4 nanosleep(3us) in a thread with a cancellation request pending: the sleep is not a cancellation point that may return early with 0 */        /* a: 0 nanosleep(0), 1 nanosleep(3 ticks), 2 usleep(5us), 3 sleep(0) */
    /* durations of seconds on a coarse clock (0.7 s per read, deviation 1.6 s): a: 0 usleep(4294968) [just above 2^32 ns], 1 usleep(999999), 2 sleep(3), 3 nanosleep(2 s + 999999999 ns), 4 usleep(1000000) */
    for (int a = 0; a < 5; a++) add(tier, FM_LONG, a, 0, W, 1);
    /* two sleepers and a third, runnable thread queued behind them: it must get the worker while they sleep */
    if (W == 1) { add(tier, FM_TWOSLEEP, 0, 0, 1, tier ? 2 : 1); add(tier, FM_TWOSLEEP, 1, 0, 1, 1); }
    for (int a = 0; a < 3; a++) for (int dl = 0; dl < 4; dl++) add(tier, FM_TLOCK, a, dl, W, (a == 2 || dl == 3) ? 2 : K);   /* a: 0 no holder, 1 holder yields once, 2 holder yields 3 times */
    /* timed lock against a holder AND queued lockers: when the holder leaves, the mutex is free although waiters are queued */
    for (int a = 1; a <= 2; a++) for (int dl = 2; dl < 4; dl++) add(tier, FM_TLOCKQ, a, dl, W, a == 1 ? 2 : 1);
    for (int a = 0; a < 3; a++) for (int dl = 0; dl < 4; dl++) add(tier, FM_TJOIN, a, dl, W, (a == 2 || dl == 3) ? 2 : K);   /* a: 0 target already finished, 1 target yields once, 2 target yields 3 times */
  }
}
static int nprogs(int tier) { build(); return NP[tier]; }
static void config(int tier, int prog, int * W, int * K) { build(); *W = P[tier][prog].W; *K = P[tier][prog].K; }
static const char * const dl_name[] = { "deadline 1s in the past", "deadline = now", "deadline = now+3 ticks", "deadline = now+8 ticks" };
static void describe(int tier, int prog, char * b, size_t n) {
  build(); prog_t * p = &P[tier][prog];
  static const char * const sl[] = { "nanosleep(0)", "nanosleep(3us)", "usleep(5)", "sleep(0)", "nanosleep(3us) with a cancellation request pending", "nanosleep(3us) with rem == req" };
  static const char * const ho[] = { "nobody holds the mutex", "holder yields once", "holder yields 3 times" };
  static const char * const tg[] = { "target already finished", "target yields once", "target yields 3 times" };
  switch (p->fam) {
  case FM_SLEEP: snprintf(b, n, "%s with a runnable sibling", sl[p->a]); break;
  case FM_LONG: { static const char * const lg[] = { "usleep(4294968)", "usleep(999999)", "sleep(3)", "nanosleep(2.999999999 s)", "usleep(1000000)" }; snprintf(b, n, "%s on a coarse clock (0.7 s per read)", lg[p->a]); break; }
  case FM_TWOSLEEP: snprintf(b, n, "two threads in %s and a runnable thread queued behind them on one worker", p->a ? "timedlock on a held mutex (deadline now+8 ticks)" : "nanosleep(6us)"); break;
  case FM_TLOCK: snprintf(b, n, "timedlock, %s, %s", ho[p->a], dl_name[p->dl]); break;
  case FM_TLOCKQ: snprintf(b, n, "timedlock, holder yields once and %d plain locker(s) queued behind it, %s", p->a, dl_name[p->dl]); break;
  default: snprintf(b, n, "timedjoin, %s, %s", tg[p->a], dl_name[p->dl]); break;
  }
}
static prog_t * cur; static myth_mutex_t m;
static volatile int sib_progress, sib_stop, holder_has, holder_done, occ, tfin;
static long ts_ns(const struct timespec * t) { return (t->tv_sec - 1000000L) * 1000000000L + t->tv_nsec; }
static void deadline(struct timespec * dl, int code) {
  mv_clock_read(dl);
  switch (code) { case 0: dl->tv_sec -= 1; break; case 1: break; case 2: dl->tv_nsec += 3000; break; default: dl->tv_nsec += 8000; break; }
  if (dl->tv_nsec >= 1000000000L) { dl->tv_nsec -= 1000000000L; dl->tv_sec++; }
}
static int after(const struct timespec * dl) { struct timespec n; mv_clock_read(&n); return ts_ns(&n) > ts_ns(dl); }
static void * sibling(void * a) { (void)a; while (!sib_stop) { sib_progress++; mv_wait_until_changed(&sib_stop, sizeof(int)); } return 0; }
static void * holder(void * a) {
  int y = (int)(long)a;
  myth_mutex_lock(&m); mv_point(&holder_has, sizeof(int)); holder_has = 1;
  for (int i = 0; i < y; i++) myth_yield();
  myth_mutex_unlock(&m); holder_done = 1;
  return 0;
}
static void * locker(void * a) { (void)a; myth_mutex_lock(&m); occ++; mv_point(&occ, sizeof(int)); MV_CHECK(occ == 1, "two threads hold the mutex"); occ--; myth_mutex_unlock(&m); return 0; }
static void * target(void * a) { int y = (int)(long)a; for (int i = 0; i < y; i++) myth_yield(); mv_point(&tfin, sizeof(int)); tfin = 1; return (void *)777; }

static volatile int third_ran;
static void * third_body(void * a) { (void)a; mv_point(&third_ran, sizeof(int)); third_ran = 1; return 0; }
static void * two_sleeper(void * a) {
  struct timespec t0, t1; mv_clock_read(&t0);
  if (a) { struct timespec dl; deadline(&dl, 3); int r = myth_mutex_timedlock(&m, &dl); MV_CHECK(r == ETIMEDOUT, "timedlock on a mutex held throughout returned %d", r); }
  else { struct timespec rq = { 0, 6000 }; int r = myth_nanosleep(&rq, 0); MV_CHECK(r == 0, "nanosleep returned %d", r); }
  mv_clock_read(&t1);
  /* without a clock jump the wait went round several times, yielding each time: the queued third thread must have had its turn */
  if (ts_ns(&t1) - ts_ns(&t0) >= 1000000000L) return (void *)1;
  return (void *)(long)(third_ran ? 1 : 0);
}

static volatile long cs_elapsed; static volatile int cs_r;
static void * cancelled_sleeper(void * a) {
  (void)a; struct timespec rq = { 0, 3000 }, t0, t1;
  myth_cancel(myth_self());                      /* the request stays pending until the thread tests for it */
  mv_clock_read(&t0); cs_r = myth_nanosleep(&rq, 0); mv_clock_read(&t1);
  cs_elapsed = ts_ns(&t1) - ts_ns(&t0);
  return 0;
}
static void run(int tier, int prog) {
  build(); cur = &P[tier][prog];
  mv_start(cur->W);
  myth_mutex_init(&m, 0);
  switch (cur->fam) {
  case FM_SLEEP: {
    myth_thread_t s = myth_create(sibling, 0);
    struct timespec t0, t1; mv_clock_read(&t0);
    long want_ns; int r;
    int p0 = sib_progress;
    switch (cur->a) {
    case 0: { struct timespec rq = { 0, 0 }; want_ns = 0; r = myth_nanosleep(&rq, 0); break; }
    case 1: { struct timespec rq = { 0, 3000 }; want_ns = 3000; r = myth_nanosleep(&rq, 0); break; }
    case 2: want_ns = 5000; r = myth_usleep(5); break;
    case 5: { struct timespec rq = { 0, 3000 }; want_ns = 3000; r = myth_nanosleep(&rq, &rq); break; }
    case 4: { want_ns = 3000; myth_thread_t c = myth_create(cancelled_sleeper, 0); myth_join(c, 0); r = cs_r; t0.tv_sec = 1000000L; t0.tv_nsec = 0; mv_clock_read(&t1); MV_CHECK(cs_elapsed >= want_ns, "a sleep of %ld ns in a thread with a pending cancellation request returned 0 after %ld ns", want_ns, cs_elapsed); break; }
    default: want_ns = 0; r = (int)myth_sleep(0); break;
    }
    mv_clock_read(&t1);
    MV_CHECK(r == 0, "sleep function returned %d", r);
    MV_CHECK(ts_ns(&t1) - ts_ns(&t0) >= want_ns, "sleep returned after %ld ns, earlier than the requested %ld ns", ts_ns(&t1) - ts_ns(&t0), want_ns);
    /* without a clock jump the sleep loop went round at least three times, yielding each time */
    if (cur->W == 1 && want_ns >= 3000 && ts_ns(&t1) - ts_ns(&t0) < 1000000000L) MV_CHECK(sib_progress > p0, "the runnable sibling did not get the worker during the sleep");
    if (sib_progress > p0) mv_cover(0);
    mv_point(&sib_stop, sizeof(int)); sib_stop = 1; myth_join(s, 0);
    mv_obs("slept %ld", want_ns);
    break; }
  case FM_LONG: {
    mv_set_clock_step(700000000L, 1600000000L);
    struct timespec t0, t1; mv_clock_read(&t0);
    long long want_ns; long r;
    switch (cur->a) {
    case 0: want_ns = 4294968000LL; r = myth_usleep(4294968); break;
    case 1: want_ns = 999999000LL; r = myth_usleep(999999); break;
    case 2: want_ns = 3000000000LL; r = (long)myth_sleep(3); break;
    case 3: { struct timespec rq = { 2, 999999999 }; want_ns = 2999999999LL; r = myth_nanosleep(&rq, 0); break; }
    default: want_ns = 1000000000LL; r = myth_usleep(1000000); break;
    }
    mv_clock_read(&t1);
    MV_CHECK(r == 0 || (cur->a == 4 && r == -1), "sleep function returned %ld", r);   /* usleep(1000000) may be refused (EINVAL) as POSIX allows */
    if (r == 0) MV_CHECK(ts_ns(&t1) - ts_ns(&t0) >= want_ns, "sleep returned after %lld ns of virtual time, earlier than the requested %lld ns", (long long)(ts_ns(&t1) - ts_ns(&t0)), want_ns);
    mv_set_clock_step(1000L, 1000000000L);
    mv_obs("long sleep %d r=%ld", cur->a, r);
    break; }
  case FM_TWOSLEEP: {
    /* parent-first creations: the third thread sits in the run queue below the two sleepers */
    myth_thread_t th[3];
    h_spawn(V_EX_PARENT_FIRST, &th[2], third_body, 0);
    if (cur->a) myth_mutex_lock(&m);
    h_spawn(V_EX_PARENT_FIRST, &th[0], two_sleeper, (void *)(long)cur->a);
    h_spawn(V_EX_PARENT_FIRST, &th[1], two_sleeper, (void *)(long)cur->a);
    for (int i = 0; i < 2; i++) { void * r = 0; myth_join(th[i], &r); MV_CHECK(r == (void *)1, "while two threads slept / waited with a deadline on the only worker, the third runnable thread was never scheduled (it ran only after both had finished)"); }
    if (cur->a) myth_mutex_unlock(&m);
    myth_join(th[2], 0);
    mv_obs("twosleep %d", cur->a);
    break; }
  case FM_TLOCK: {
    myth_thread_t h = 0;
    if (cur->a) { h = myth_create(holder, (void *)(long)(cur->a == 1 ? 1 : 3)); while (!holder_has && !holder_done) mv_wait_until_changed(&holder_has, sizeof(int)); }
    struct timespec dl, t_start; deadline(&dl, cur->dl); mv_clock_read(&t_start);
    int r = myth_mutex_timedlock(&m, &dl);
    MV_CHECK(r == 0 || r == ETIMEDOUT, "timedlock returned %d", r);
    if (r == 0) { occ++; mv_point(&occ, sizeof(int)); MV_CHECK(!cur->a || holder_done, "timedlock succeeded while the holder still owns the mutex"); occ--; myth_mutex_unlock(&m); mv_cover(1); }
    else {
      MV_CHECK(cur->a != 0, "timedlock timed out although the mutex was free at its first attempt"); MV_CHECK(after(&dl), "timedlock timed out before its deadline"); mv_cover(2);
      /* one worker, holder needs the worker once to release, deadline at least 3 clock reads away, no clock jump:
         every round of the wait must hand the worker to the runnable holder, so an attempt before the deadline finds the mutex free */
      struct timespec n2; mv_clock_read(&n2);
      MV_CHECK(!(cur->W == 1 && cur->a == 1 && cur->dl >= 2 && ts_ns(&n2) - ts_ns(&t_start) < 1000000000L),
	       "timedlock timed out on one worker although the runnable holder only needed the worker once to release (the waiting thread kept the worker to itself)");
    }
    if (h) myth_join(h, 0);
    mv_obs("tlock r=%d", r);
    break; }
  case FM_TLOCKQ: {
    myth_thread_t h = myth_create(holder, (void *)1L), q[2];
    while (!holder_has && !holder_done) mv_wait_until_changed(&holder_has, sizeof(int));
    for (int i = 0; i < cur->a; i++) q[i] = myth_create(locker, 0);
    mv_watch(&m.state, sizeof m.state);
    struct timespec dl; deadline(&dl, cur->dl);
    int r = myth_mutex_timedlock(&m, &dl);
    MV_CHECK(r == 0 || r == ETIMEDOUT, "timedlock returned %d", r);
    if (r == 0) { occ++; mv_point(&occ, sizeof(int)); MV_CHECK(occ == 1, "timedlock succeeded while another thread holds the mutex"); occ--; myth_mutex_unlock(&m); mv_cover(5); }
    else {
      MV_CHECK(after(&dl), "timedlock timed out before its deadline");
      /* every round of the timed wait reads the clock and then attempts: a round that began with the lock bit clear, before
         the deadline, and during which no other worker ran must have taken the mutex */
      mv_csample_t cs[64]; int n = mv_clock_samples(myth_self(), cs, 64);
      for (int i = 0; i < n; i++)
	MV_CHECK(!((cs[i].value & 1) == 0 && cs[i].now_ns <= ts_ns(&dl) && cs[i].switches == cs[i].next_switches),
		 "timedlock timed out although the mutex was free (state word %#lx: lock bit clear, %ld waiter(s) queued) at its attempt at virtual time %ld ns, before the deadline",
		 (unsigned long)cs[i].value, (long)(cs[i].value >> 1), cs[i].now_ns);
      mv_cover(6);
    }
    myth_join(h, 0); for (int i = 0; i < cur->a; i++) myth_join(q[i], 0);
    MV_CHECK(m.state == 0, "mutex state %ld at the end", (long)m.state);
    mv_obs("tlockq r=%d", r);
    break; }
  default: {
    myth_thread_t t = myth_create(target, (void *)(long)(cur->a == 0 ? 0 : cur->a == 1 ? 1 : 3));
    if (cur->a == 0) { while (mythv_desc_status(t) != 3) mv_wait_until_changed(mythv_desc_status_ptr(t), sizeof(int)); }
    struct timespec dl, tj_start; deadline(&dl, cur->dl); mv_clock_read(&tj_start);
    void * v = 0;
    int r = myth_timedjoin(t, &v, &dl);
    if (r == 0) { MV_CHECK(tfin == 1 && v == (void *)777, "timedjoin succeeded before the target finished or delivered a wrong value"); mv_cover(3); }
    else {
      MV_CHECK(r == EBUSY || r == ETIMEDOUT, "timedjoin returned %d", r);
      MV_CHECK(cur->a != 0, "timedjoin timed out although the target had finished before the call");
      MV_CHECK(after(&dl), "timedjoin gave up before its deadline");
      mv_cover(4);
      { struct timespec n2; mv_clock_read(&n2);
	MV_CHECK(!(cur->W == 1 && cur->a == 1 && cur->dl >= 2 && ts_ns(&n2) - ts_ns(&tj_start) < 1000000000L),
		 "timedjoin timed out on one worker although the runnable target only needed the worker once to finish (the waiting thread kept the worker to itself)"); }
      myth_join(t, &v); MV_CHECK(v == (void *)777, "join after timed-out timedjoin delivered a wrong value");
    }
    mv_obs("tjoin r=%d", r);
    break; }
  }
  mv_finish();
}
static const char * const cover_names[] = { "sibling_ran_during_sleep", "timedlock_ok", "timedlock_timeout", "timedjoin_ok", "timedjoin_timeout", "timedlock_with_queue_ok", "timedlock_with_queue_timeout", 0 };
static uint64_t cover_required(int tier) { (void)tier; return 0x7f; }
mc_harness_t mc_harness = { "C20", "timed", nprogs, describe, config, run, cover_names, cover_required };
