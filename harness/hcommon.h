/* hcommon.h --- helpers shared by the E1 harnesses */
#pragma once
#include <stdio.h>
#include <stdlib.h>
#include <string.h>
#include <errno.h>
#include "myth/myth.h"
#include "mythmc.h"
#ifdef __cplusplus
extern "C" {
#endif
/* exported by the library (src/myth_if_native.c) but missing from the public header */
int myth_globalattr_set_child_first(myth_globalattr_t * attr, int child_first);
#ifdef __cplusplus
}
#endif

/* creation variants: every way the public API can start a thread */
enum {
  V_CREATE = 0,        /* myth_create(f, a) */
  V_EX_NULLATTR,       /* myth_create_ex(&id, NULL, f, a) */
  V_EX_ATTR_DEFAULT,   /* attr object filled with garbage, then myth_thread_attr_init only */
  V_EX_PARENT_FIRST,   /* attr init + parent-first through a global child_first=0 snapshot */
  V_EX_STACK_8K,       /* attr init + setstacksize(8192) */
  V_EX_STACK_16K_PF,   /* attr init + setstacksize(16384) + parent-first */
  V_EX_STACK_64K,      /* attr init + setstacksize(65536) */
  V_EX_STACK_12K,      /* attr init + setstacksize(12288): rounded up to the 16K class */
  V_EX_NULLID,         /* myth_create_ex(NULL, NULL, f, a): id not wanted */
  V_EX_STACK_ODD,      /* attr init + setstacksize(20000): not a multiple of the page size */
  V_EX_HINT,           /* attr init + setstacksize(16384) + 16 bytes of custom data (the scheduling hint read back with myth_wsapi_get_hint_*) */
  V_EX_HINT_PF,        /* default stack + 16 bytes of custom data + parent-first */
  V_N
};
static const char * const v_name[] = { "create", "ex(attr=NULL)", "ex(attr=init)", "ex(parent-first)", "ex(stack=8K)",
				       "ex(stack=16K,parent-first)", "ex(stack=64K)", "ex(stack=12K)", "ex(id=NULL)", "ex(stack=20000)", "ex(stack=16K,hint=16B)", "ex(hint=16B,parent-first)" };

static inline int v_parent_first(int v) { return v == V_EX_PARENT_FIRST || v == V_EX_STACK_16K_PF || v == V_EX_HINT_PF; }
static inline size_t v_stack(int v) {
  switch (v) { case V_EX_STACK_8K: return 8192; case V_EX_STACK_16K_PF: return 16384; case V_EX_STACK_64K: return 65536;
  case V_EX_STACK_12K: return 12288; case V_EX_STACK_ODD: return 20000; case V_EX_HINT: return 16384; default: return 0; }
}

/* prepare an attribute object the way a user would: storage with arbitrary contents,
   myth_thread_attr_init, then the public setters */
static inline void h_prepare_attr(myth_thread_attr_t * a, int v) {
  memset(a, 0xA5, sizeof *a);
  if (v_parent_first(v)) {
    /* the creation order of an attribute comes from the global attribute: public functions only */
    myth_globalattr_set_child_first(NULL, 0);
    myth_thread_attr_init(a);
    myth_globalattr_set_child_first(NULL, 1);
  } else {
    myth_thread_attr_init(a);
  }
  /* what the getters report is what creation will use */
  { int ds = -1; size_t s0 = 0; int rc = myth_thread_attr_getdetachstate(a, &ds); MV_CHECK(rc == 0 && ds == 0, "a freshly initialised attribute object reports detach state %d (rc %d), expected joinable (0)", ds, rc);
    rc = myth_thread_attr_getstacksize(a, &s0); MV_CHECK(rc == 0 && s0 >= 4096, "a freshly initialised attribute object reports stack size %zu (rc %d)", s0, rc); }
  /* a guard size is a separate setting: it must not disturb the others */
  { size_t s0 = 0, s1 = 0, g = 0; myth_thread_attr_getstacksize(a, &s0); int rc = myth_thread_attr_setguardsize(a, 8192); int r2 = myth_thread_attr_getguardsize(a, &g); myth_thread_attr_getstacksize(a, &s1);
    MV_CHECK(rc == 0 && r2 == 0 && g == 8192 && s1 == s0, "setguardsize(8192) returned %d; the attribute then reports guard size %zu (rc %d) and stack size %zu (was %zu)", rc, g, r2, s1, s0); }
  size_t ss = v_stack(v);
  if (v == V_EX_HINT || v == V_EX_HINT_PF) { static const unsigned long h_hint[2] = { 0x1122334455667788UL, 0 }; a->custom_data_size = sizeof h_hint; a->custom_data = (void *)h_hint; }
  if (ss) { int rc = myth_thread_attr_setstacksize(a, ss); size_t s1 = 0; int r2 = myth_thread_attr_getstacksize(a, &s1);
    MV_CHECK(rc == 0 && r2 == 0 && s1 == ss, "setstacksize(%zu) returned %d, getstacksize then reports %zu (rc %d)", ss, rc, s1, r2); }
}

static inline int h_spawn(int v, myth_thread_t * id, myth_func_t f, void * arg) {
  myth_thread_attr_t a;
  switch (v) {
  case V_CREATE: *id = myth_create(f, arg); return 0;
  case V_EX_NULLATTR: return myth_create_ex(id, NULL, f, arg);
  case V_EX_NULLID: *id = NULL; return myth_create_ex(NULL, NULL, f, arg);
  default: h_prepare_attr(&a, v); return myth_create_ex(id, &a, f, arg);
  }
}

/* a thread created with V_EX_HINT finds its 16 bytes of custom data intact */
static inline void h_check_hint(void) {
  myth_thread_t me = myth_self(); size_t n = myth_wsapi_get_hint_size(me); unsigned long * p = (unsigned long *)myth_wsapi_get_hint_ptr(me);
  MV_CHECK(n == 16 && p && p[0] == 0x1122334455667788UL && p[1] == 0, "custom data of the thread: size %zu, content %lx %lx (expected 16 bytes 1122334455667788 0)", n, p ? p[0] : 0UL, p ? p[1] : 0UL);
}

/* two frames between the thread function and myth_exit */
static void __attribute__((noinline)) h_exit_l2(void * v) { volatile char pad[40]; pad[0] = 1; (void)pad; myth_exit(v); }
static void __attribute__((noinline)) h_exit_l1(void * v) { volatile char pad[24]; pad[0] = 2; (void)pad; h_exit_l2(v); }

/* ---- initialisation of synchronisation objects the way a user may do it: the object lives in memory that held something else before
   (filled with 0x5A here), and the attribute argument is either NULL or an attribute object prepared with the public *_attr_init
   function only (also in dirty memory).  `with_attr` alternates by program index so that both forms are explored. ---- */
#define H_DIRTY(obj) memset((void *)(obj), 0x5A, sizeof *(obj))
static inline void h_mutex_init(myth_mutex_t * m, int with_attr) {
  H_DIRTY(m);
  if (with_attr) { myth_mutexattr_t a; H_DIRTY(&a); myth_mutexattr_init(&a); myth_mutex_init(m, &a); myth_mutexattr_destroy(&a); }
  else myth_mutex_init(m, 0);
}
static inline void h_cond_init(myth_cond_t * c, int with_attr) {
  H_DIRTY(c);
  if (with_attr) { myth_condattr_t a; H_DIRTY(&a); myth_condattr_init(&a); myth_cond_init(c, &a); myth_condattr_destroy(&a); }
  else myth_cond_init(c, 0);
}
static inline void h_barrier_init(myth_barrier_t * b, int with_attr, unsigned n) {
  H_DIRTY(b);
  if (with_attr) { myth_barrierattr_t a; H_DIRTY(&a); myth_barrierattr_init(&a); myth_barrier_init(b, &a, n); myth_barrierattr_destroy(&a); }
  else myth_barrier_init(b, 0, n);
}
static inline void h_join_counter_init(myth_join_counter_t * j, int with_attr, int n) {
  H_DIRTY(j);
  int rc;
  if (with_attr) { myth_join_counterattr_t a; H_DIRTY(&a); myth_join_counterattr_init(&a); rc = myth_join_counter_init(j, &a, n); myth_join_counterattr_destroy(&a); }
  else rc = myth_join_counter_init(j, 0, n);
  MV_CHECK(rc == 0, "myth_join_counter_init(%d) returned %d", n, rc);
}
static inline void h_felock_init(myth_felock_t * f, int with_attr) {
  H_DIRTY(f);
  if (with_attr) { myth_felockattr_t a; H_DIRTY(&a); myth_felockattr_init(&a); myth_felock_init(f, &a); myth_felockattr_destroy(&a); }
  else myth_felock_init(f, 0);
}
static inline void h_uncond_init(myth_uncond_t * u) { H_DIRTY(u); myth_uncond_init(u); }

/* ---- life-cycle epilogues: after the program proper the object is destroyed, initialised again in the same memory (with the other form of
   the attribute argument), used once more in the simplest way, and destroyed.  "An object that has been destroyed can be initialised
   again and then behaves like a new one" is part of every primitive's contract and costs a handful of steps per execution. ---- */
static inline void h_mutex_epilogue(myth_mutex_t * m, int with_attr) {
  int rc = myth_mutex_destroy(m); MV_CHECK(rc == 0, "myth_mutex_destroy of a free mutex returned %d", rc);
  h_mutex_init(m, !with_attr);
  rc = myth_mutex_trylock(m); MV_CHECK(rc == 0, "trylock on a freshly re-initialised mutex returned %d", rc);
  rc = myth_mutex_trylock(m); MV_CHECK(rc == EBUSY, "trylock on a held mutex returned %d instead of EBUSY", rc);
  rc = myth_mutex_unlock(m); MV_CHECK(rc == 0, "unlock returned %d", rc);
  rc = myth_mutex_lock(m); MV_CHECK(rc == 0, "lock on a free mutex returned %d", rc);
  rc = myth_mutex_unlock(m); MV_CHECK(rc == 0, "unlock returned %d", rc);
  MV_CHECK(m->state == 0, "mutex state word %ld after lock/unlock on a re-initialised mutex", (long)m->state);
  rc = myth_mutex_destroy(m); MV_CHECK(rc == 0, "second myth_mutex_destroy returned %d", rc);
}
static inline void h_cond_epilogue(myth_cond_t * c, int with_attr) {
  int rc = myth_cond_destroy(c); MV_CHECK(rc == 0, "myth_cond_destroy without waiters returned %d", rc);
  h_cond_init(c, !with_attr);
  rc = myth_cond_signal(c); MV_CHECK(rc == 0, "signal without waiter on a re-initialised condition variable returned %d", rc);
  rc = myth_cond_broadcast(c); MV_CHECK(rc == 0, "broadcast without waiter returned %d", rc);
  rc = myth_cond_destroy(c); MV_CHECK(rc == 0, "second myth_cond_destroy returned %d", rc);
}
static void * h_bar_partner(void * a) { int s = myth_barrier_wait((myth_barrier_t *)a); return (void *)(long)(s + 10); }
static inline void h_barrier_epilogue(myth_barrier_t * b, int with_attr) {
  int rc = myth_barrier_destroy(b); MV_CHECK(rc == 0, "myth_barrier_destroy of an idle barrier returned %d", rc);
  h_barrier_init(b, !with_attr, 1);                      /* same memory, other participant count */
  for (int r = 0; r < 2; r++) { rc = myth_barrier_wait(b); MV_CHECK(rc == MYTH_BARRIER_SERIAL_THREAD, "one-participant barrier: wait #%d returned %d", r, rc); }
  rc = myth_barrier_destroy(b); MV_CHECK(rc == 0, "myth_barrier_destroy returned %d", rc);
  h_barrier_init(b, with_attr, 2);
  myth_thread_t t = myth_create(h_bar_partner, b); int s = myth_barrier_wait(b); void * r = 0; myth_join(t, &r);
  MV_CHECK((s != 0) + ((long)r - 10 != 0) == 1, "two-participant barrier after re-initialisation: serial indicators %d and %ld", s, (long)r - 10);
  rc = myth_barrier_destroy(b); MV_CHECK(rc == 0, "myth_barrier_destroy returned %d", rc);
}
static inline void h_felock_epilogue(myth_felock_t * f, int with_attr) {
  int rc = myth_felock_destroy(f); MV_CHECK(rc == 0, "myth_felock_destroy returned %d", rc);
  h_felock_init(f, !with_attr);
  MV_CHECK(myth_felock_status(f) == 0, "status %d right after re-initialisation", myth_felock_status(f));
  rc = myth_felock_lock(f); MV_CHECK(rc == 0, "lock returned %d", rc); rc = myth_felock_unlock(f); MV_CHECK(rc == 0, "unlock returned %d", rc);
  rc = myth_felock_wait_and_lock(f, 0); MV_CHECK(rc == 0, "wait_and_lock(0) on an empty cell returned %d", rc);
  rc = myth_felock_mark_and_signal(f, 1); MV_CHECK(rc == 0, "mark_and_signal(1) returned %d", rc);
  MV_CHECK(myth_felock_status(f) == 1, "status %d after mark_and_signal(1)", myth_felock_status(f));
  rc = myth_felock_wait_and_lock(f, 1); MV_CHECK(rc == 0, "wait_and_lock(1) on a full cell returned %d", rc);
  rc = myth_felock_mark_and_signal(f, 0); MV_CHECK(rc == 0, "mark_and_signal(0) returned %d", rc);
  rc = myth_felock_destroy(f); MV_CHECK(rc == 0, "second myth_felock_destroy returned %d", rc);
}
static void * h_jc_dec(void * a) { myth_join_counter_dec((myth_join_counter_t *)a); return 0; }
static inline void h_join_counter_epilogue(myth_join_counter_t * j, int with_attr) {
  h_join_counter_init(j, !with_attr, 2);                 /* same memory, other count */
  myth_thread_t t = myth_create(h_jc_dec, j); myth_join_counter_dec(j); myth_join_counter_wait(j); myth_join(t, 0);
  h_join_counter_init(j, with_attr, 1);
  myth_join_counter_dec(j); myth_join_counter_wait(j);   /* already reached: must not block */
}
static inline void h_uncond_epilogue(myth_uncond_t * u) {
  int rc = myth_uncond_destroy(u); MV_CHECK(rc == 0, "myth_uncond_destroy returned %d", rc);
  h_uncond_init(u);
  MV_CHECK(u->th == 0, "a re-initialised uncondition variable holds a thread");
  rc = myth_uncond_destroy(u); MV_CHECK(rc == 0, "second myth_uncond_destroy returned %d", rc);
}

/* ---- a user-supplied steal function (public wsapi): peeks at the next worker's queue, then takes from it with a decision callback that
   declines every other offer.  Installed for a share of the programs on >= 2 workers: whatever the primitive under test wakes up must
   still be resumed when steals go through this path. ---- */
static int h_decide_cnt;
static int h_decide(myth_thread_t th, void * u) { (void)th; (void)u; return (h_decide_cnt++ & 1); }
static myth_thread_t h_custom_steal(int rank) {
  int nw = myth_get_num_workers(), victim = (rank + 1) % nw; size_t sz = 0;
  (void)myth_wsapi_runqueue_peek(victim, 0, &sz);
  return myth_wsapi_runqueue_take(victim, h_decide, 0);
}
static inline void h_maybe_custom_steal(int prog, int W) { if (W >= 2 && prog % 5 == 4) myth_wsapi_set_stealfunc(h_custom_steal); }

/* ---- sentinels: a second, independent object of the same type with one thread blocked on it for the whole program.  It is released by
   main only at the very end; if it comes back earlier, a wake-up meant for the object under test went to the wrong object (state shared
   between two independent objects).  Used by a third of the programs (prog % 3 == 2). ---- */
typedef struct { int kind; volatile int released, returned, early; myth_thread_t th; myth_mutex_t m; myth_cond_t c; myth_barrier_t b; myth_join_counter_t j; myth_felock_t f; } h_sentinel_t;
static void * h_sentinel_body(void * a) {
  h_sentinel_t * s = (h_sentinel_t *)a;
  switch (s->kind) {
  case 4: myth_mutex_lock(&s->m); myth_mutex_unlock(&s->m); break;
  case 5: myth_mutex_lock(&s->m); while (!s->released) myth_cond_wait(&s->c, &s->m); myth_mutex_unlock(&s->m); break;
  case 6: myth_barrier_wait(&s->b); break;
  case 7: myth_join_counter_wait(&s->j); break;
  case 9: myth_felock_wait_and_lock(&s->f, 1); myth_felock_mark_and_signal(&s->f, 0); break;
  }
  if (!s->released) s->early = 1;
  s->returned = 1;
  return 0;
}
static inline void h_sentinel_start(h_sentinel_t * s, int kind, int prog) {
  memset(s, 0x5A, sizeof *s); s->kind = (prog % (kind == 4 ? 6 : 3) == 2) ? kind : 0;   /* the mutex harness has many programs: every sixth */ s->released = s->returned = s->early = 0;
  if (!s->kind) return;
  switch (kind) {
  case 4: h_mutex_init(&s->m, 1); myth_mutex_lock(&s->m); break;
  case 5: h_mutex_init(&s->m, 0); h_cond_init(&s->c, 1); break;
  case 6: h_barrier_init(&s->b, 0, 2); break;
  case 7: h_join_counter_init(&s->j, 1, 1); break;
  case 9: h_felock_init(&s->f, 0); break;
  }
  s->th = myth_create(h_sentinel_body, s);
}
static inline void h_sentinel_finish(h_sentinel_t * s) {
  if (!s->kind) return;
  MV_CHECK(!s->returned && !s->early, "the thread blocked on a second, independent object came back although that object was never released: a wake-up went to the wrong object");
  mv_point(&s->released, sizeof(int)); s->released = 1;
  switch (s->kind) {
  case 4: myth_mutex_unlock(&s->m); break;
  case 5: myth_mutex_lock(&s->m); myth_cond_signal(&s->c); myth_mutex_unlock(&s->m); break;
  case 6: myth_barrier_wait(&s->b); break;
  case 7: myth_join_counter_dec(&s->j); break;
  case 9: myth_felock_wait_and_lock(&s->f, 0); myth_felock_mark_and_signal(&s->f, 1); break;
  }
  myth_join(s->th, 0);
  MV_CHECK(s->returned && !s->early, "the thread blocked on the second object did not come back after that object was released");
}

/* ---- bystanders: a thread that has nothing to do with the object under test and just yields until the program is over.  Its presence
   means that a yield inside the primitive really switches threads and that the worker always has something else to run.  A quarter of
   the two-worker programs get one (prog % 4 == 1). ---- */
typedef struct { volatile int stop, rounds; myth_thread_t th; int on; } h_bystander_t;
static void * h_bystander_body(void * a) { h_bystander_t * b = (h_bystander_t *)a; while (!b->stop) { b->rounds++; mv_wait_until_changed(&b->stop, sizeof(int)); } return 0; }
static inline void h_bystander_start(h_bystander_t * b, int prog, int W) { b->stop = 0; b->rounds = 0; b->on = (W >= 2 && prog % 4 == 1); if (b->on) b->th = myth_create(h_bystander_body, b); }
static inline void h_bystander_finish(h_bystander_t * b) { if (!b->on) return; mv_point(&b->stop, sizeof(int)); b->stop = 1; myth_join(b->th, 0); }
