/* C11 (E1 part) --- destructors at thread end when they yield or block, so that the dying thread changes workers inside its own exit.
 *
 * Keys: k[0] destructor yields twice, k[1] no destructor, k[2] plain destructor, k[3] destructor takes a mutex that another thread holds
 * across a yield.  1-2 threads store their own values under a subset of the keys and end by return / myth_exit / cancel+testcancel.
 * Oracle: every destructor of a key under which the thread stored a non-NULL value is called exactly once with that value, nothing
 * else with a value; join delivers; the ownership ledger stays clean (record and stack of the dying thread released once, by the worker
 * it last ran on).
 */
#include "hcommon.h"
typedef struct { int nth, mode[2], mask[2], W, K, pf; } prog_t;
#define MAXP 400
static prog_t P[2][MAXP]; static int NP[2];
static void add(int tier, int nth, int m0, int k0, int m1, int k1, int W, int K) { if (NP[tier] < MAXP) { prog_t * p = &P[tier][NP[tier]++]; p->nth = nth; p->mode[0] = m0; p->mask[0] = k0; p->mode[1] = m1; p->mask[1] = k1; p->W = W; p->K = K; p->pf = 0; } }
static void build(void) {
  static int built; if (built) return; built = 1;
  for (int tier = 0; tier < 2; tier++) for (int W = 1; W <= 2; W++) {
    int K = tier ? 3 : 2;
    for (int m = 0; m < 3; m++) for (int mask = 1; mask < 16; mask += (tier ? 1 : 2)) add(tier, 1, m, mask, 0, 0, W, tier ? ((mask & 9) ? K : 1) : (((mask == 1 || mask == 9 || mask == 15) && m == 0 && W == 2) ? 2 : 1));
    for (int m = 0; m < 3; m++) { add(tier, 2, m, 0xF, (m + 1) % 3, 0x9, W, tier ? 2 : 1); add(tier, 2, m, 0x1, m, 0x8, W, tier ? 2 : 1); if (tier) add(tier, 2, m, 0x5, (m + 2) % 3, 0xD, W, 2); }
    /* the same for threads started parent-first (through an attribute object): pf bit i = thread i */
    for (int m = 0; m < 3; m++) { add(tier, 1, m, 0x5, 0, 0, W, tier ? 2 : 1); P[tier][NP[tier] - 1].pf = 1; add(tier, 2, m, 0x7, (m + 1) % 3, 0x5, W, 1); P[tier][NP[tier] - 1].pf = 2 + (m & 1); }
  }
}
static int nprogs(int tier) { build(); return NP[tier]; }
static void config(int tier, int prog, int * W, int * K) { build(); *W = P[tier][prog].W; *K = P[tier][prog].K; }
static const char * const mname[] = { "return", "myth_exit", "cancel+testcancel" };
static void describe(int tier, int prog, char * b, size_t n) {
  build(); prog_t * p = &P[tier][prog]; int o = snprintf(b, n, "thread exit with yielding / blocking destructors:");
  for (int i = 0; i < p->nth; i++) o += snprintf(b + o, n - o, " t%d%s ends by %s holding keys mask 0x%x", i, (p->pf >> i & 1) ? " (parent-first)" : "", mname[p->mode[i]], p->mask[i]);
}
static prog_t * cur; static myth_key_t key[4]; static myth_mutex_t dm;
static volatile int other_key_wrong; static volatile int calls[4][2], wrong, holder_go, holder_done, in_dtor_migrated;
static void note(int k, void * v) { if (!v) return;   /* the native key interface also calls destructors for NULL values (tests/myth_key_destructor.c relies on it): neither demanded nor forbidden here */
  long x = (long)v; int t = (int)(x >> 8) - 1, kk = (int)(x & 0xff); if (t < 0 || t > 1 || kk != k) { wrong++; return; } calls[k][t]++; }
static void d_yield(void * v) { int w0 = mv_worker(); myth_yield(); myth_yield(); if (mv_worker() != w0) { in_dtor_migrated = 1; mv_cover(0); } note(0, v); }
static void d_plain(void * v) {
  /* a destructor may look at the thread's other values: what the thread stored under the key without destructor is still there */
  if (v) { long x = (long)v; int t = (int)(x >> 8) - 1; if (t >= 0 && t <= 1 && (cur->mask[t] >> 1 & 1)) { void * o = myth_getspecific(key[1]); if (o != (void *)(long)(((t + 1) << 8) | 1)) other_key_wrong++; } }
  note(2, v);
}
static void d_lock(void * v) { int w0 = mv_worker(); myth_mutex_lock(&dm); myth_mutex_unlock(&dm); if (mv_worker() != w0) mv_cover(1); note(3, v); }
static void * holder(void * a) { (void)a; myth_mutex_lock(&dm); mv_point(&holder_go, sizeof(int)); holder_go = 1; myth_yield(); myth_yield(); myth_mutex_unlock(&dm); holder_done = 1; return 0; }
static void * body(void * a) {
  int me = (int)(long)a;
  for (int k = 0; k < 4; k++) if (cur->mask[me] >> k & 1) myth_setspecific(key[k], (void *)(long)(((me + 1) << 8) | k));
  if (cur->mode[me] == 1) h_exit_l1((void *)(long)(50 + me));
  if (cur->mode[me] == 2) { myth_cancel(myth_self()); myth_testcancel(); mv_fail("testcancel returned after a cancellation request"); }
  return (void *)(long)(50 + me);
}
static void run(int tier, int prog) {
  build(); cur = &P[tier][prog];
  mv_start(cur->W);
  h_mutex_init(&dm, prog & 1);
  myth_key_create(&key[0], d_yield); myth_key_create(&key[1], 0); myth_key_create(&key[2], d_plain); myth_key_create(&key[3], d_lock);
  int need_holder = 0; for (int i = 0; i < cur->nth; i++) if (cur->mask[i] & 8) need_holder = 1;
  myth_thread_t h = 0, th[2];
  if (need_holder) { h = myth_create(holder, 0); while (!holder_go && !holder_done) mv_wait_until_changed(&holder_go, sizeof(int)); }
  for (int i = 0; i < cur->nth; i++) { int rc = h_spawn((cur->pf >> i & 1) ? V_EX_PARENT_FIRST : V_CREATE, &th[i], body, (void *)(long)i); MV_CHECK(rc == 0, "creation returned %d", rc); }
  for (int i = 0; i < cur->nth; i++) {
    void * r = 0; int rc = myth_join(th[i], &r); MV_CHECK(rc == 0, "join returned %d", rc);
    if (cur->mode[i] != 2) MV_CHECK((long)r == 50 + i, "join of t%d delivered %ld", i, (long)r);
  }
  if (h) myth_join(h, 0);
  MV_CHECK(other_key_wrong == 0, "inside the destructor of one key the thread's value under another live key (one without destructor) was gone or changed (%d time(s))", other_key_wrong);
  MV_CHECK(wrong == 0, "a destructor was called with a value that is not the exiting thread's value under that key (%d such calls)", wrong);
  for (int i = 0; i < cur->nth; i++) for (int k = 0; k < 4; k++) {
    int expect = (k != 1 && (cur->mask[i] >> k & 1)) ? 1 : 0;
    MV_CHECK(calls[k][i] == expect, "destructor of key #%d called %d time(s) for thread t%d (ends by %s), expected %d", k, calls[k][i], i, mname[cur->mode[i]], expect);
  }
  for (int k = 0; k < 4; k++) myth_key_delete(key[k]);
  mv_obs("migrated=%d", in_dtor_migrated);
  h_mutex_epilogue(&dm, prog & 1);
  mv_finish();
}
static const char * const cover_names[] = { "migrated_inside_yielding_destructor", "migrated_inside_blocking_destructor", 0 };
static uint64_t cover_required(int tier) { (void)tier; return 1; }
mc_harness_t mc_harness = { "C11", "exit", nprogs, describe, config, run, cover_names, cover_required };
