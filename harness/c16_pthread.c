/* C16 --- determinate programs over the supported POSIX-threads subset behave on MassiveThreads (pthread calls
 * redirected by link-time wrapping or by symbol interposition) exactly as on the system library.
 * The program text below uses the pthread API only.  The reference output comes from the same binary with
 * MYTH_WRAP_PTHREAD=0 (system pthreads, run once per program); the wrapped run is explored under all schedules
 * with <= K deviations and must produce the identical canonical log on every one of them. */
#define _GNU_SOURCE
#include <pthread.h>
#include <sched.h>
#include <unistd.h>
#include <time.h>
#include <stdarg.h>
#include "hcommon.h"

enum { PG_SPAWN, PG_ATTR, PG_DETACH, PG_MUTEX_STATIC, PG_COND, PG_BARRIER, PG_SPIN, PG_ONCE, PG_KEYS, PG_SELF, PG_EXIT, PG_MIX, PG_KEYS_ALL, PG_TRYLOCK, PG_RETCODES, PG_KEYS_MANY, PG_SLEEPS, PG_KEYS_SPARSE, PG_KEYS_CLEAR, PG_N };
static const char * const pg_name[] = { "spawn tree (NULL attr)", "spawn with attribute objects (default-init, stack size)", "detached threads (attribute and pthread_detach)",
  "counter under a PTHREAD_MUTEX_INITIALIZER mutex first used by all threads at once", "condition-variable hand-off (static initialisers)", "barrier phases",
  "spin-lock counter", "pthread_once", "keys with destructors", "pthread_self / pthread_equal", "pthread_exit from nested frames", "mixed: keys + mutex + yield + usleep(0)", "keys with destructors, every thread stores a value under every key", "trylock / timedlock on a mutex held by the creator", "return codes of init/destroy/attr/yield/sleep calls", "18 keys without destructors: a thread reads NULL under every key it has not stored under, also after storing under the neighbouring keys (4 threads one after the other, then concurrent ones)", "threads measure their own usleep(400000) and nanosleep(0.999999999 s): neither returns early", "70 keys, five destructor functions, every thread stores under a sparse set of keys (20, 37, 66, ...): each destructor sees exactly its own keys' values", "keys with destructors: a thread stores a value and clears it again with pthread_setspecific(key, NULL) before it ends" };
typedef struct { int pg, n, W, K; } prog_t;
#define MAXP 200
static prog_t P[2][MAXP]; static int NP[2];
static void build(void) {
  static int built; if (built) return; built = 1;
  for (int tier = 0; tier < 2; tier++) for (int pg = 0; pg < PG_N; pg++) for (int n = 2; n <= (tier ? 3 : 2); n++) for (int W = 1; W <= 2; W++) {
    if (NP[tier] >= MAXP) continue;
    prog_t * p = &P[tier][NP[tier]++]; p->pg = pg; p->n = n; p->W = W; p->K = tier ? (n == 2 && W == 2 ? 3 : 2) : 1;   /* thorough: if the deadline cuts bound 3, the completed bound is reported exactly */
    if (!tier && W == 2 && (pg == PG_MUTEX_STATIC || pg == PG_ONCE || pg == PG_DETACH) ) p->K = 2;
  }
}
static int nprogs(int tier) { build(); return NP[tier]; }
static void config(int tier, int prog, int * W, int * K) { build(); *W = P[tier][prog].W; *K = P[tier][prog].K; }
static void describe(int tier, int prog, char * b, size_t n) { build(); prog_t * p = &P[tier][prog]; snprintf(b, n, "pthread program: %s, %d threads", pg_name[p->pg], p->n); }

/* ------------------------------------------------------------------ the programs (pthread API only) */
static char * LOG; static size_t LOGN;
static void logf_(const char * fmt, ...) { size_t l = strlen(LOG); va_list ap; va_start(ap, fmt); vsnprintf(LOG + l, LOGN - l, fmt, ap); va_end(ap); }
static int N;
static pthread_mutex_t smtx = PTHREAD_MUTEX_INITIALIZER; static pthread_cond_t scv = PTHREAD_COND_INITIALIZER;
static pthread_barrier_t bar; static pthread_spinlock_t spin; static pthread_once_t once = PTHREAD_ONCE_INIT; static pthread_key_t key1, key2;
static volatile long counter, turn, once_runs, dtor_sum, dtor_calls, detached_done, phase_sum[4];
static pthread_t ids[4]; static volatile int self_ok[4];

static void * t_leaf(void * a) { return (void *)((long)a * 10 + 1); }
static void * t_spawn(void * a) { long i = (long)a; pthread_t c; void * r = 0; if (i < 2) { pthread_create(&c, NULL, t_spawn, (void *)(i + 1)); pthread_join(c, &r); } return (void *)(i * 100 + (long)r % 100 + 1); }
static void * t_count(void * a) { (void)a; for (int k = 0; k < 2; k++) { pthread_mutex_lock(&smtx); long c = counter; sched_yield(); counter = c + 1; pthread_mutex_unlock(&smtx); } return 0; }
static void * t_turn(void * a) { long me = (long)a; pthread_mutex_lock(&smtx); while (turn != me) pthread_cond_wait(&scv, &smtx); turn++; pthread_cond_broadcast(&scv); pthread_mutex_unlock(&smtx); return (void *)(me + 50); }
static void * t_barrier(void * a) {
  long me = (long)a; long serial = 0;
  for (int ph = 0; ph < 2; ph++) {
    __sync_fetch_and_add(&phase_sum[ph], me + 1);
    int r = pthread_barrier_wait(&bar);
    if (r == PTHREAD_BARRIER_SERIAL_THREAD) serial++; else if (r != 0) return (void *)-1L;
    if (phase_sum[ph] != (long)N * (N + 1) / 2) return (void *)-2L;     /* everybody arrived before anybody passed */
  }
  return (void *)serial;
}
static void * t_spin(void * a) {
  (void)a; long rc = 0;
  for (int k = 0; k < 2; k++) {
    if (k == 0) rc += pthread_spin_lock(&spin);                                   /* POSIX: 0 */
    else { int t; while ((t = pthread_spin_trylock(&spin)) != 0) { if (t != EBUSY) rc += 1000; sched_yield(); } }
    long c = counter; counter = c + 1; rc += pthread_spin_unlock(&spin); sched_yield();
  }
  return (void *)rc;
}
static volatile long once_val;
static void once_fn(void) { once_runs++; sched_yield(); once_val = 42; }   /* the value appears only at the end of the routine */
static void * t_once(void * a) { (void)a; pthread_once(&once, once_fn); return (void *)(once_runs * 100 + once_val); }   /* every caller returns after the routine has completed */
static int keys_all;
static void dtor(void * v) { pthread_mutex_lock(&smtx); dtor_sum += (long)v; dtor_calls++; pthread_mutex_unlock(&smtx); }
static void * t_keys(void * a) {
  long me = (long)a;
  if (pthread_getspecific(key1) != NULL) return (void *)-1L;
  pthread_setspecific(key1, (void *)(100 + me)); if ((me & 1) || keys_all) pthread_setspecific(key2, (void *)(1000 + me));
  sched_yield();
  return (void *)((long)pthread_getspecific(key1) + (long)pthread_getspecific(key2));
}
enum { NMANY = 18 };
static pthread_key_t many[NMANY];
static void * t_many(void * a) {
  long me = (long)a, par = me & 1, stale = 0, sum = 0;
  /* store under every second key first: a thread that never stored under the others must still read NULL there */
  for (int j = 0; j < NMANY; j++) if ((j & 1) == par) pthread_setspecific(many[j], (void *)((j + 1) * (me + 1) * 1000L));
  for (int j = 0; j < NMANY; j++) if ((j & 1) != par && pthread_getspecific(many[j]) != NULL) stale |= 1L << j;
  for (int j = 0; j < NMANY; j++) if ((j & 1) != par) pthread_setspecific(many[j], (void *)((j + 1) * (me + 1) * 1000L));
  sched_yield();
  for (int j = 0; j < NMANY; j++) sum += (long)pthread_getspecific(many[j]);
  return (void *)(stale ? -stale : sum);
}
/* sparse keys with destructors */
enum { NSP = 70 };
static pthread_key_t spk[NSP]; static volatile long sp_sum[5], sp_cnt[5];
static void spd0(void * v) { pthread_mutex_lock(&smtx); sp_sum[0] += (long)v; sp_cnt[0]++; pthread_mutex_unlock(&smtx); }
static void spd1(void * v) { pthread_mutex_lock(&smtx); sp_sum[1] += (long)v; sp_cnt[1]++; pthread_mutex_unlock(&smtx); }
static void spd2(void * v) { pthread_mutex_lock(&smtx); sp_sum[2] += (long)v; sp_cnt[2]++; pthread_mutex_unlock(&smtx); }
static void spd3(void * v) { pthread_mutex_lock(&smtx); sp_sum[3] += (long)v; sp_cnt[3]++; pthread_mutex_unlock(&smtx); }
static void spd4(void * v) { pthread_mutex_lock(&smtx); sp_sum[4] += (long)v; sp_cnt[4]++; pthread_mutex_unlock(&smtx); }
static void (* const SPD[5])(void *) = { spd0, spd1, spd2, spd3, spd4 };
static void * t_sparse(void * a) {
  long me = (long)a; static const int sets[3][4] = { { 20, -1, -1, -1 }, { 37, 66, -1, -1 }, { 3, 17, 48, 69 } };
  for (int j = 0; j < 4; j++) { int k = sets[me % 3][j]; if (k >= 0) pthread_setspecific(spk[k], (void *)(long)(1000 * (me + 1) + k)); }   /* key j of NSP has destructor j % 5 */
  sched_yield();
  long s = 0; for (int j = 0; j < 4; j++) { int k = sets[me % 3][j]; if (k >= 0) s += (long)pthread_getspecific(spk[k]); }
  return (void *)s;
}
static void * t_keys_clear(void * a) {
  long me = (long)a;
  pthread_setspecific(key1, (void *)(100 + me)); pthread_setspecific(key2, (void *)(1000 + me));
  sched_yield();
  long seen = (long)pthread_getspecific(key1) + (long)pthread_getspecific(key2);
  pthread_setspecific((me & 1) ? key1 : key2, NULL);          /* cleared: its destructor must not run for this thread */
  long after = (long)pthread_getspecific(key1) + (long)pthread_getspecific(key2);
  return (void *)(seen * 10000 + after);
}
static int in_reference_mode;
static long long now_ns(void) { struct timespec t; if (in_reference_mode) clock_gettime(CLOCK_REALTIME, &t); else mv_clock_read(&t); return (long long)t.tv_sec * 1000000000LL + t.tv_nsec; }
static void * t_sleeps(void * a) {
  long me = (long)a; long ok = 0;
  if (me) usleep(100000 * me);               /* threads start their measured sleeps at different phases of the second */
  long long t0 = now_ns(); int r1 = usleep(400000); long long t1 = now_ns();
  struct timespec rq = { 0, 999999999 }; int r2 = (me & 1) ? nanosleep(&rq, &rq) : nanosleep(&rq, NULL); long long t2 = now_ns();   /* odd threads: the usual restart idiom, remainder written over the request */   /* the nanosecond field carries into the seconds at almost any phase */
  if (r1 == 0 && t1 - t0 >= 400000000LL) ok += 10;
  if (r2 == 0 && t2 - t1 >= 999999999LL) ok += 1;
  return (void *)ok;
}
static void * t_self(void * a) { long me = (long)a; pthread_t s = pthread_self(); sched_yield(); self_ok[me] = pthread_equal(s, pthread_self()) ? 1 : 0; return (void *)(long)(pthread_equal(pthread_self(), pthread_self()) != 0); }
static void __attribute__((noinline)) deep_exit(long v, int d) { volatile char pad[32]; pad[0] = (char)d; if (d == 0) pthread_exit((void *)v); deep_exit(v, d - 1); (void)pad; }
static void * t_exit(void * a) { deep_exit((long)a + 70, 3); return (void *)-1L; }
static void * t_detached(void * a) { (void)a; sched_yield(); pthread_mutex_lock(&smtx); detached_done++; pthread_cond_broadcast(&scv); pthread_mutex_unlock(&smtx); return 0; }
static pthread_mutex_t dm;
static void * t_try(void * a) {
  long me = (long)a; struct timespec past = { 1, 0 };
  int r1 = pthread_mutex_trylock(&dm);                 /* held by the creator: EBUSY */
  int r2 = pthread_mutex_timedlock(&dm, &past);        /* deadline long past: ETIMEDOUT */
  int r3 = pthread_mutex_trylock(&smtx); if (r3 == 0) pthread_mutex_unlock(&smtx); else { pthread_mutex_lock(&smtx); pthread_mutex_unlock(&smtx); r3 = 0; }
  return (void *)(long)(r1 * 10000 + r2 * 100 + r3 + me * 0);
}
static void * t_mix(void * a) { long me = (long)a; pthread_setspecific(key1, (void *)(7 + me)); pthread_mutex_lock(&smtx); counter += (long)pthread_getspecific(key1); pthread_mutex_unlock(&smtx); usleep(0); sched_yield(); return pthread_getspecific(key1); }

static void program(int pg, int n, char * log, size_t logn) {
  LOG = log; LOGN = logn; LOG[0] = 0; N = n;
  pthread_t th[4]; void * r;
  switch (pg) {
  case PG_SPAWN: for (long i = 0; i < n; i++) pthread_create(&th[i], NULL, i ? t_leaf : t_spawn, (void *)i); for (int i = 0; i < n; i++) { pthread_join(th[i], &r); logf_("j%d=%ld;", i, (long)r); } break;
  case PG_ATTR: {
    pthread_attr_t a0, a1; pthread_attr_init(&a0); pthread_attr_init(&a1); pthread_attr_setstacksize(&a1, 65536);
    for (long i = 0; i < n; i++) pthread_create(&th[i], (i & 1) ? &a1 : &a0, t_leaf, (void *)(i + 3));
    for (int i = 0; i < n; i++) { pthread_join(th[i], &r); logf_("j%d=%ld;", i, (long)r); }
    pthread_attr_destroy(&a0); pthread_attr_destroy(&a1); break; }
  case PG_DETACH: {
    pthread_attr_t a; pthread_attr_init(&a); pthread_attr_setdetachstate(&a, PTHREAD_CREATE_DETACHED);
    for (long i = 0; i < n; i++) { if (i & 1) { pthread_create(&th[i], NULL, t_detached, 0); pthread_detach(th[i]); } else pthread_create(&th[i], &a, t_detached, 0); }
    pthread_mutex_lock(&smtx); while (detached_done < n) pthread_cond_wait(&scv, &smtx); pthread_mutex_unlock(&smtx);
    logf_("detached_done=%ld;", detached_done); pthread_attr_destroy(&a); break; }
  case PG_MUTEX_STATIC: for (long i = 0; i < n; i++) pthread_create(&th[i], NULL, t_count, 0); for (int i = 0; i < n; i++) pthread_join(th[i], 0); logf_("counter=%ld;", counter); break;
  case PG_COND: for (long i = n - 1; i >= 0; i--) pthread_create(&th[i], NULL, t_turn, (void *)i); for (int i = 0; i < n; i++) { pthread_join(th[i], &r); logf_("t%d=%ld;", i, (long)r); } logf_("turn=%ld;", turn); break;
  case PG_BARRIER: { long serial = 0; pthread_barrier_init(&bar, NULL, n); for (long i = 0; i < n; i++) pthread_create(&th[i], NULL, t_barrier, (void *)i);
    for (int i = 0; i < n; i++) { pthread_join(th[i], &r); if ((long)r < 0) logf_("bad%d=%ld;", i, (long)r); else serial += (long)r; } logf_("serial_total=%ld;", serial); pthread_barrier_destroy(&bar); break; }
  case PG_SPIN: pthread_spin_init(&spin, PTHREAD_PROCESS_PRIVATE); for (long i = 0; i < n; i++) pthread_create(&th[i], NULL, t_spin, 0); for (int i = 0; i < n; i++) { pthread_join(th[i], &r); logf_("rc%d=%ld;", i, (long)r); } logf_("counter=%ld;", counter); pthread_spin_destroy(&spin); break;
  case PG_ONCE: for (long i = 0; i < n; i++) pthread_create(&th[i], NULL, t_once, 0); for (int i = 0; i < n; i++) { pthread_join(th[i], &r); logf_("seen%d=%ld;", i, (long)r); } pthread_once(&once, once_fn); logf_("runs=%ld;", once_runs); break;
  case PG_KEYS_ALL: keys_all = 1; /* fall through */
  case PG_KEYS: pthread_key_create(&key1, dtor); pthread_key_create(&key2, dtor);
    for (long i = 0; i < n; i++) pthread_create(&th[i], NULL, t_keys, (void *)i); for (int i = 0; i < n; i++) { pthread_join(th[i], &r); logf_("k%d=%ld;", i, (long)r); }
    logf_("dtor_calls=%ld;dtor_sum=%ld;main=%ld;", dtor_calls, dtor_sum, (long)pthread_getspecific(key1)); pthread_key_delete(key1); pthread_key_delete(key2); break;
  case PG_SELF: for (long i = 0; i < n; i++) pthread_create(&th[i], NULL, t_self, (void *)i); for (int i = 0; i < n; i++) { pthread_join(th[i], &r); logf_("s%d=%ld/%d;", i, (long)r, self_ok[i]); }
    logf_("distinct=%d;", !pthread_equal(th[0], th[1])); break;
  case PG_EXIT: for (long i = 0; i < n; i++) pthread_create(&th[i], NULL, t_exit, (void *)i); for (int i = n - 1; i >= 0; i--) { pthread_join(th[i], &r); logf_("e%d=%ld;", i, (long)r); } break;
  case PG_TRYLOCK: pthread_mutex_init(&dm, NULL); pthread_mutex_lock(&dm);
    for (long i = 0; i < n; i++) pthread_create(&th[i], NULL, t_try, (void *)i); for (int i = 0; i < n; i++) { pthread_join(th[i], &r); logf_("try%d=%ld;", i, (long)r); }
    { int u = pthread_mutex_unlock(&dm); int t = pthread_mutex_trylock(&dm); int u2 = pthread_mutex_unlock(&dm); logf_("unlock=%d;trylock_free=%d;unlock2=%d;", u, t, u2); }
    logf_("destroy=%d;", pthread_mutex_destroy(&dm)); break;
  case PG_KEYS_MANY: { int kc = 0; for (int j = 0; j < NMANY; j++) kc += pthread_key_create(&many[j], NULL);
    for (long q = 0; q < 4; q++) { pthread_create(&th[0], NULL, t_many, (void *)q); pthread_join(th[0], &r); logf_("q%ld=%ld;", q, (long)r); }   /* one after the other: records are re-used */
    for (long i = 1; i < n; i++) pthread_create(&th[i], NULL, t_many, (void *)(i + 3)); for (int i = 1; i < n; i++) { pthread_join(th[i], &r); logf_("m%d=%ld;", i, (long)r); }
    { long mainstale = 0; for (int j = 0; j < NMANY; j++) if (pthread_getspecific(many[j]) != NULL) mainstale++; logf_("kc=%d;main_stale=%ld;", kc, mainstale); }
    for (int j = 0; j < NMANY; j++) pthread_key_delete(many[j]); break; }
  case PG_SLEEPS: for (long i = 0; i < n; i++) pthread_create(&th[i], NULL, t_sleeps, (void *)i); for (int i = 0; i < n; i++) { pthread_join(th[i], &r); logf_("slept%d=%ld;", i, (long)r); } break;
  case PG_KEYS_SPARSE: { int kc = 0; for (int j = 0; j < NSP; j++) kc += pthread_key_create(&spk[j], SPD[j % 5]);
    for (long i = 0; i < n; i++) pthread_create(&th[i], NULL, t_sparse, (void *)i); for (int i = 0; i < n; i++) { pthread_join(th[i], &r); logf_("s%d=%ld;", i, (long)r); }
    logf_("kc=%d;", kc); for (int d = 0; d < 5; d++) logf_("d%d=%ld/%ld;", d, sp_cnt[d], sp_sum[d]);
    for (int j = 0; j < NSP; j++) pthread_key_delete(spk[j]); break; }
  case PG_KEYS_CLEAR: pthread_key_create(&key1, dtor); pthread_key_create(&key2, dtor);
    for (long i = 0; i < n; i++) pthread_create(&th[i], NULL, t_keys_clear, (void *)i); for (int i = 0; i < n; i++) { pthread_join(th[i], &r); logf_("k%d=%ld;", i, (long)r); }
    logf_("dtor_calls=%ld;dtor_sum=%ld;", dtor_calls, dtor_sum); pthread_key_delete(key1); pthread_key_delete(key2); break;
  case PG_RETCODES: {
    pthread_attr_t a; size_t ss = 0; int ds = -1; pthread_cond_t c; pthread_barrier_t b; pthread_key_t k; pthread_spinlock_t sp; pthread_mutexattr_t ma; int ty = -1;
    logf_("ai=%d;", pthread_attr_init(&a)); logf_("ass=%d;", pthread_attr_setstacksize(&a, 262144)); { int q = pthread_attr_getstacksize(&a, &ss); logf_("ags=%d/%zu;", q, ss); }
    logf_("asd=%d;", pthread_attr_setdetachstate(&a, PTHREAD_CREATE_JOINABLE)); { int q = pthread_attr_getdetachstate(&a, &ds); logf_("agd=%d/%d;", q, ds); }
    logf_("c=%d;", pthread_create(&th[0], &a, t_leaf, (void *)4)); { int q = pthread_join(th[0], &r); logf_("j=%d/%ld;", q, (long)r); } logf_("ad=%d;", pthread_attr_destroy(&a));
    logf_("mai=%d;", pthread_mutexattr_init(&ma)); logf_("mat=%d;", pthread_mutexattr_settype(&ma, PTHREAD_MUTEX_DEFAULT)); { int q = pthread_mutexattr_gettype(&ma, &ty); logf_("mag=%d/%d;", q, ty == PTHREAD_MUTEX_DEFAULT); }
    logf_("mi=%d;", pthread_mutex_init(&dm, &ma)); logf_("ml=%d;", pthread_mutex_lock(&dm)); logf_("mu=%d;", pthread_mutex_unlock(&dm)); logf_("md=%d;", pthread_mutex_destroy(&dm)); logf_("mad=%d;", pthread_mutexattr_destroy(&ma));
    logf_("ci=%d;", pthread_cond_init(&c, NULL)); logf_("cs=%d;", pthread_cond_signal(&c)); logf_("cb=%d;", pthread_cond_broadcast(&c)); logf_("cd=%d;", pthread_cond_destroy(&c));
    logf_("bi=%d;", pthread_barrier_init(&b, NULL, 1)); logf_("bw=%d;", pthread_barrier_wait(&b) == PTHREAD_BARRIER_SERIAL_THREAD); logf_("bd=%d;", pthread_barrier_destroy(&b));
    logf_("si=%d;", pthread_spin_init(&sp, PTHREAD_PROCESS_PRIVATE)); logf_("st=%d;", pthread_spin_trylock(&sp)); logf_("su=%d;", pthread_spin_unlock(&sp)); logf_("sd=%d;", pthread_spin_destroy(&sp));
    logf_("kc=%d;", pthread_key_create(&k, NULL)); logf_("ks=%d;", pthread_setspecific(k, (void *)5)); logf_("kg=%ld;", (long)pthread_getspecific(k)); logf_("kd=%d;", pthread_key_delete(k));
    logf_("y=%d;", sched_yield()); logf_("us=%d;", usleep(0)); logf_("eq=%d;", pthread_equal(pthread_self(), pthread_self()) != 0);
    break; }
  default: pthread_key_create(&key1, NULL); for (long i = 0; i < n; i++) pthread_create(&th[i], NULL, t_mix, (void *)i); for (int i = 0; i < n; i++) { pthread_join(th[i], &r); logf_("m%d=%ld;", i, (long)r); } logf_("counter=%ld;", counter); break;
  }
}

static void reference(int tier, int prog, char * out, size_t n) {
  build(); prog_t * p = &P[tier][prog];
  setenv("MYTH_WRAP_PTHREAD", "0", 1);           /* the same binary on the system's pthreads */
  in_reference_mode = 1;
  program(p->pg, p->n, out, n);
}
static void run(int tier, int prog) {
  build(); prog_t * p = &P[tier][prog];
  static char log[MV_REF_SZ];
  mv_start(p->W);
  if (p->pg == PG_SLEEPS) mv_set_clock_step(350000000L, 1600000000L);   /* sleeps of tenths of a second: a coarse virtual clock */
  program(p->pg, p->n, log, sizeof log);
  mv_obs("%s", log);
  MV_CHECK(mv_reference && !strcmp(log, mv_reference), "output differs from the system pthread library: got [%s], reference [%s]", log, mv_reference ? mv_reference : "(none)");
  mv_finish();
}
static uint64_t cover_required(int tier) { (void)tier; return 0; }
mc_harness_t mc_harness = { "C16", "pthread", nprogs, describe, config, run, 0, cover_required, reference };
