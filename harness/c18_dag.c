/* C18 --- the totals the DAG Recorder reports do not depend on how the DAG was contracted (engine E3, see dag_sim.h).
 *
 * Per case (program, timing, section opening, W, schedule, option setting) the recorded execution is judged
 *   - GS.root->info after dr_stop(): t_1, t_inf, logical_node_counts[], logical_edge_counts[]      against the oracle
 *   - the .stat file written by dr_dump(): create_task / wait_tasks / end_task / work / critical path / dag nodes and
 *     the five edge matrices (summed), n_workers, elapsed, materialized nodes
 *         option 0 (nothing contracted)  : against the oracle
 *         every other option setting     : against the values of option 0 for the same execution
 *   - the stream of user hooks: one interval per enter_create / enter_wait / enter_other / end_task, with the kind,
 *     worker and clock values the simulator produced
 *   - critical path <= work;  "materialized nodes" == number of nodes really in memory
 * Key prefixes: root-summary:  stat-uncontracted:  edge-totals-depend-on-contraction:  totals-depend-on-contraction:
 *               materialized-count:  hooks:  stat-file:  recorder-warning:  abort:
 */
#include "dag_sim.h"

enum { V_R_WORK, V_R_TINF, V_R_NCREATE, V_R_NWAIT, V_R_NOTHER, V_R_NEND, V_R_E0, V_R_E1, V_R_E2, V_R_E3, V_R_E4,
       V_S_CREATE, V_S_WAIT, V_S_END, V_S_WORK, V_S_TINF, V_S_NODES, V_S_E0, V_S_E1, V_S_E2, V_S_E3, V_S_E4, V_N };
static const char * const VN[V_N] = { "t_1", "t_inf", "create_task", "wait_tasks", "other", "end_task", "end", "create", "create_cont", "wait_cont", "other_cont",
				      "create_task", "wait_tasks", "end_task", "work", "critical_path", "dag_nodes", "end", "create", "create_cont", "wait_cont", "other_cont" };

typedef struct { long v[V_N]; long n_workers, elapsed, materialized; int have[V_N], warned, ok; char text[3000]; } stat_t;
/* The recorder writes <prefix>.stat through fopen/fprintf/fclose.  <prefix>.stat is a FIFO that lives in this worker's
   scratch directory under build/ and whose read end this process holds: the text arrives here without a create /
   truncate / unlink of a regular file per case (with 16 processes those serialise on the file system's journal and
   made the quick tier take minutes). */
static int STAT_FD = -1; static char STAT_FOR[260];
static void stat_prepare(const char * prefix) {
  char fn[260]; snprintf(fn, sizeof fn, "%s.stat", prefix);
  if (STAT_FD < 0 || strcmp(fn, STAT_FOR)) {
    if (STAT_FD >= 0) close(STAT_FD);
    unlink(fn);
    if (mkfifo(fn, 0644)) { perror(fn); }
    STAT_FD = open(fn, O_RDONLY | O_NONBLOCK); strcpy(STAT_FOR, fn);
  }
  char junk[4096]; while (read(STAT_FD, junk, sizeof junk) > 0) {}      /* leftovers of a dump that was cut short */
}
static void parse_stat(const char * prefix, stat_t * st) {
  (void)prefix;
  memset(st, 0, sizeof *st); st->n_workers = st->elapsed = st->materialized = -1;
  ssize_t r = 0, x;
  while (r < (ssize_t)sizeof st->text - 1 && (x = read(STAT_FD, st->text + r, sizeof st->text - 1 - r)) > 0) r += x;
  if (r <= 0) return; st->text[r] = 0;
  static const struct { const char * name; int idx; } F[] = { { "create_task", V_S_CREATE }, { "wait_tasks", V_S_WAIT }, { "end_task", V_S_END },
    { "work (T1)", V_S_WORK }, { "critical_path (T_inf)", V_S_TINF }, { "dag nodes", V_S_NODES } };
  static const char * const EH[EK_MAX] = { "end-parent edges:", "create-child edges:", "create-cont edges:", "wait-cont edges:", "other-cont edges:" };
  char * save = NULL; int cur_edge = -1;
  char copy[3000]; memcpy(copy, st->text, r + 1);
  for (char * ln = strtok_r(copy, "\n", &save); ln; ln = strtok_r(NULL, "\n", &save)) {
    if (strstr(ln, "*** warning")) { st->warned = 1; continue; }
    int k; for (k = 0; k < EK_MAX; k++) if (!strcmp(ln, EH[k])) break;
    if (k < EK_MAX) { cur_edge = k; st->have[V_S_E0 + k] = 1; continue; }
    char * eq = strchr(ln, '=');
    if (eq) {
      cur_edge = -1;
      char name[64]; int n = (int)(eq - ln); while (n > 0 && ln[n - 1] == ' ') n--; if (n > 63) n = 63; memcpy(name, ln, n); name[n] = 0;
      long val = strtol(eq + 1, NULL, 10);
      for (unsigned i = 0; i < sizeof F / sizeof F[0]; i++) if (!strcmp(name, F[i].name)) { st->v[F[i].idx] = val; st->have[F[i].idx] = 1; }
      if (!strcmp(name, "n_workers (P)")) st->n_workers = val;
      if (!strcmp(name, "elapsed")) st->elapsed = val;
      if (!strcmp(name, "materialized nodes")) st->materialized = val;
    } else if (cur_edge >= 0) {
      char * q = ln; for (;;) { char * e; long x = strtol(q, &e, 10); if (e == q) break; st->v[V_S_E0 + cur_edge] += x; q = e; }
    }
  }
  st->ok = 1; for (int i = V_S_CREATE; i < V_N; i++) if (!st->have[i]) st->ok = 0;
}

static int component_skip(int nf, int oi) { (void)nf; (void)oi; return 0; }
static const char * const AUX_NAMES[4] = { "cases whose graph bytes equal an earlier setting's (.stat reused)", ".stat files produced and parsed", 0, 0 };

static void component_case(void) {
  const oracle_t * o = CASE.o; const sched_t * s = CASE.s;
  long X[V_N], V[V_N]; char cls[100];
  X[V_R_WORK] = o->work; X[V_R_TINF] = o->crit;
  for (int i = 0; i < 4; i++) X[V_R_NCREATE + i] = o->nodes[i];
  for (int i = 0; i < EK_MAX; i++) X[V_R_E0 + i] = X[V_S_E0 + i] = o->edges[i];
  X[V_S_CREATE] = o->nodes[0]; X[V_S_WAIT] = o->nodes[1]; X[V_S_END] = o->nodes[3]; X[V_S_WORK] = o->work; X[V_S_TINF] = o->crit;
  X[V_S_NODES] = s->niv + o->nsections + o->ntasks;

  /* (1) the root summary */
  if (!GS.root) { found("root-summary:no-root", NULL, "GS.root is null after dr_stop()"); return; }
  const dr_dag_node_info * ri = &GS.root->info;
  V[V_R_WORK] = (long)ri->t_1; V[V_R_TINF] = (long)ri->t_inf;
  V[V_R_NCREATE] = ri->logical_node_counts[dr_dag_node_kind_create_task]; V[V_R_NWAIT] = ri->logical_node_counts[dr_dag_node_kind_wait_tasks];
  V[V_R_NOTHER] = ri->logical_node_counts[dr_dag_node_kind_other]; V[V_R_NEND] = ri->logical_node_counts[dr_dag_node_kind_end_task];
  V[V_R_E0 + EK_END] = ri->logical_edge_counts[dr_dag_edge_kind_end]; V[V_R_E0 + EK_CREATE] = ri->logical_edge_counts[dr_dag_edge_kind_create];
  V[V_R_E0 + EK_CREATE_CONT] = ri->logical_edge_counts[dr_dag_edge_kind_create_cont]; V[V_R_E0 + EK_WAIT_CONT] = ri->logical_edge_counts[dr_dag_edge_kind_wait_cont];
  V[V_R_E0 + EK_OTHER_CONT] = ri->logical_edge_counts[dr_dag_edge_kind_other_cont];
  for (int i = V_R_WORK; i <= V_R_E4; i++) if (V[i] != X[i]) {
      snprintf(cls, sizeof cls, "root-summary:%s%s", i >= V_R_E0 ? "edge:" : i >= V_R_NCREATE ? "node:" : "", VN[i]);
      found(cls, NULL, "GS.root->info reports %s = %ld, the execution has %ld", VN[i], V[i], X[i]);
    }
  if (V[V_R_TINF] > V[V_R_WORK]) found("root-summary:critical-path-exceeds-work", NULL, "t_inf = %ld > t_1 = %ld", V[V_R_TINF], V[V_R_WORK]);

  /* (2) the hook stream against the simulator's interval list */
  {
    static const int KMAP[5] = { -1, dr_dag_node_kind_create_task, dr_dag_node_kind_other, dr_dag_node_kind_wait_tasks, dr_dag_node_kind_end_task };
    long exp[9] = { 0 };
    for (int i = 0; i < s->nsc; i++) switch (s->sc[i].call) {
      case C_START: case C_START_TASK: exp[0]++; break; case C_BEGIN: exp[1]++; break; case C_ENTER_CREATE: exp[2]++; break; case C_RET_CREATE: exp[3]++; break;
      case C_ENTER_WAIT: exp[4]++; break; case C_RET_WAIT: exp[5]++; break; case C_ENTER_OTHER: exp[6]++; break; case C_RET_OTHER: exp[7]++; break;
      case C_END_TASK: case C_STOP: exp[8]++; break; }
    for (int h = 0; h < 9; h++) if (HKN[h] != exp[h]) found("hooks:count", NULL, "hook #%d called %ld times, %ld matching instrumentation calls were made", h, HKN[h], exp[h]);
    if (NHK != s->niv) found("hooks:intervals", NULL, "%d intervals announced through hooks, %d intervals executed", NHK, s->niv);
    else for (int i = 0; i < NHK; i++) {
	const iv_t * v = &s->iv[i]; const hk_t * h = &HK[i];
	if (h->kind != KMAP[v->kind] || h->worker != v->worker || h->t0 != v->t0 || h->t1 != v->t1 || h->eline != v->eline) {
	  found("hooks:interval-content", NULL, "interval %d: hook saw kind %d worker %d [%ld,%ld) line %ld, executed kind %d worker %d [%ld,%ld) line %d",
		v->opid, h->kind, h->worker, h->t0, h->t1, h->eline, KMAP[v->kind], v->worker, v->t0, v->t1, v->eline);
	  break;
	}
      }
  }

  /* (3) the .stat file.  It is a function of the position-independent DAG dr_dump() builds from the graph in memory:
     when an earlier option setting of this same execution left a graph with the very same bytes (most of the 90
     settings of the thorough grid do), the file it produced is reused instead of being produced and parsed again. */
  long in_memory = dr_dag_count_nodes(GS.root);
  if (ri->cur_node_count != in_memory) found("materialized-count:root.cur_node_count", NULL, "root cur_node_count = %ld, %ld nodes are in memory", ri->cur_node_count, in_memory);
  static stat_t st; static struct { unsigned long long h; stat_t st; } memo[32]; static int nmemo;
  if (CASE.oi == 0) nmemo = 0;
  unsigned long long h; int hit = -1;
  { dr_pi_dag G0[1]; dr_make_pi_dag(G0, GS.root, GS.start_clock); h = pi_hash(G0); free(G0->T); free(G0->E); free(G0->S); }
  for (int i = 0; i < nmemo; i++) if (memo[i].h == h) hit = i;
  if (hit >= 0 && !CASE.verbose) { st = memo[hit].st; SLOT->aux[0]++; }
  else {
    stat_prepare(SCRATCH);
    dr_dump_();
    parse_stat(SCRATCH, &st);
    SLOT->aux[1]++;
    if (nmemo < 32) { memo[nmemo].h = h; memo[nmemo].st = st; nmemo++; }
  }
  if (CASE.verbose) {
    printf("---- %s.stat\n%s----\n", SCRATCH, st.text);
    printf("root: t_1=%ld t_inf=%ld nodes c/w/o/e=%ld/%ld/%ld/%ld edges end/create/create_cont/wait_cont/other_cont=%ld/%ld/%ld/%ld/%ld cur_node_count=%ld in_memory=%ld\n",
	   V[0], V[1], V[2], V[3], V[4], V[5], V[6], V[7], V[8], V[9], V[10], ri->cur_node_count, in_memory);
  }
  if (!st.ok) { found("stat-file:unreadable", NULL, "the .stat file is missing or lacks expected fields"); return; }
  for (int i = V_S_CREATE; i < V_N; i++) V[i] = st.v[i];
  if (st.n_workers != CASE.W) found("stat-file:n_workers", NULL, "n_workers = %ld, recorded with %d", st.n_workers, CASE.W);
  if (st.elapsed != o->elapsed) found("stat-file:elapsed", NULL, "elapsed = %ld, the execution took %ld", st.elapsed, o->elapsed);
  if (st.materialized != in_memory) found("materialized-count:stat-file", NULL, "materialized nodes = %ld, %ld nodes were in memory", st.materialized, in_memory);
  if (st.warned) found("stat-file:accounting-warning", NULL, "the file says running + delay + no_work != n_workers * elapsed");
  if (CASE.oi == 0) {
    for (int i = V_S_CREATE; i < V_N; i++) if (V[i] != X[i]) {
	snprintf(cls, sizeof cls, "stat-uncontracted:%s%s", i >= V_S_E0 ? "edge:" : "", VN[i]);
	found(cls, NULL, ".stat (nothing contracted) reports %s = %ld, the execution has %ld", VN[i], V[i], X[i]);
      }
    memcpy(BASE, V, sizeof V); HAVE_BASE = 1;
  } else {
    const long * ref = HAVE_BASE ? BASE : X;
    for (int i = 0; i < V_N; i++) if (V[i] != ref[i] && (HAVE_BASE || i >= V_S_CREATE)) {
	if (i >= V_S_E0) snprintf(cls, sizeof cls, "edge-totals-depend-on-contraction:%s", VN[i]);
	else snprintf(cls, sizeof cls, "totals-depend-on-contraction:%s%s", i < V_S_CREATE ? "root:" : "stat:", VN[i]);
	found(cls, NULL, "%s reports %s = %ld with these options, %ld %s", i < V_S_CREATE ? "GS.root->info" : ".stat", VN[i], V[i], ref[i],
	      HAVE_BASE ? "for the same execution recorded without contraction" : "in the execution (the uncontracted run aborted)");
      }
  }
  /* (4) anything the recorder complained about while dumping.
     Expectation corrected: "warning: n_running = 2 > n_workers = 1 (clock skew?)" is NOT reported for the zero-gap
     timings.  There a worker ends one interval and starts the next at the same clock value; the replay orders events
     with equal time stamps arbitrarily, may process the start first and then sees W+1 intervals running for a span
     of zero ticks.  No accumulated figure is affected (the span is 0), and a real time-stamp counter cannot return the
     same value at two successive instrumentation points of one worker, so this is an artefact of the virtual clock.
     With gap 1 no worker ever has two intervals touching, and the warning would be reported. */
  char lg[400];
  if (log_read(lg, sizeof lg)) {
    int only_ties = CASE.tm.gap == 0;
    if (only_ties) {
      char tmp[400]; strcpy(tmp, lg);
      static const char * const benign[] = { "warning: n_running = ", " > n_workers = ", " (clock skew?)", "note: further occurrences of this warning will be suppressed" };
      for (unsigned b = 0; b < 4; b++) for (char * q; (q = strstr(tmp, benign[b])); ) memset(q, ' ', strlen(benign[b]));
      for (char * z = tmp; *z; z++) if (*z != ' ' && !(*z >= '0' && *z <= '9')) only_ties = 0;
    }
    if (!only_ties) {
      for (char * z = lg; *z; z++) { if (*z >= '0' && *z <= '9') *z = '#'; if (*z == ' ') *z = '_'; }
      snprintf(cls, sizeof cls, "recorder-warning:%.60s", lg);
      found(cls, NULL, "the recorder printed a complaint while dumping this valid execution: %.150s", lg);
    }
  }
}

int main(int argc, char ** argv) {
  WANT_STAT = 1; WANT_DAG = 0;
  return dag_main(argc, argv, "C18", "c18", "E3 seqmc (serial multi-worker simulator driving the real recorder; bounded exhaustive programs x schedules x options vs an interval-list oracle)",
		  1, 1, "totals of root summary and .stat file vs oracle and across the option grid");
}
