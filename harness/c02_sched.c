/* C02 (E1 part) --- whole library with an 8-entry run queue (MYTH_VERIF_QUEUE_SIZE=8): every runnable thread is
 * resumed exactly once; programs that can always make progress terminate on 1-3 workers, also across re-centring
 * of the queue storage and with a custom steal function that peeks, declines and accepts. */
#include "hcommon.h"
enum { FM_FAN, FM_SLIDE, FM_CLIMB, FM_MUTEX, FM_CUSTOM, FM_OCCUPY, FM_YIELDEX };
typedef struct { int fam, n, y, W, K; } prog_t;
#define MAXP 300
static prog_t P[2][MAXP]; static int NP[2];
static void add(int tier, int fam, int n, int y, int W, int K) { if (NP[tier] < MAXP) { prog_t * p = &P[tier][NP[tier]++]; p->fam = fam; p->n = n; p->y = y; p->W = W; p->K = K; } }
static void build(void) {
  static int built; if (built) return; built = 1;
  for (int tier = 0; tier < 2; tier++) for (int W = 1; W <= 3; W++) {
    int K = tier ? 3 : 2;
    for (int n = 2; n <= 4; n++) for (int y = 0; y <= 2; y++) {
      int k = (n == 2 && y <= 1) ? K : (n * (y + 1) <= 6 ? 2 : 1); if (W == 3 && k > 2) k = 2; if (W == 3 && n * (y + 1) > 4) k = 1;
      if (!tier && W == 3 && n > 3) continue;
      add(tier, FM_FAN, n, y, W, k);
    }
    add(tier, FM_SLIDE, 2, 6, W, W == 3 ? 1 : 2); add(tier, FM_SLIDE, 3, 4, W, 1);
    add(tier, FM_CLIMB, 5, 0, W, W == 3 ? 1 : 2); add(tier, FM_CLIMB, 6, 1, W, 1);
    add(tier, FM_MUTEX, 3, 1, W, W == 3 ? 1 : 2);
    if (W > 1) add(tier, FM_OCCUPY, 2, 0, W, W == 2 ? K : 2);
    /* every scheduling option of myth_yield_ex (half-half, local only, local first, steal only, steal first), mixed over the threads */
    add(tier, FM_YIELDEX, 3, 2, W, W == 3 ? 1 : 2); add(tier, FM_YIELDEX, 4, 1, W, 1); add(tier, FM_YIELDEX, 2, 5, W, W == 1 ? 2 : 1);
    if (W > 1) { add(tier, FM_CUSTOM, 2, 1, W, 2); add(tier, FM_CUSTOM, 3, 0, W, W == 3 ? 1 : 2); add(tier, FM_CUSTOM, 3, 2, W, 1); }
  }
}
static int nprogs(int tier) { build(); return NP[tier]; }
static void config(int tier, int prog, int * W, int * K) { build(); *W = P[tier][prog].W; *K = P[tier][prog].K; }
static void describe(int tier, int prog, char * b, size_t n) {
  build(); prog_t * p = &P[tier][prog];
  static const char * const fm[] = { "fan-out", "yield ping-pong (slides the queue to its lower boundary)", "parent-first burst (fills the queue to its upper boundary)", "mutex wake-ups", "custom steal function (peek, decline, accept)", "occupied workers: a runnable thread queued behind a thread that keeps its worker must be taken by an idle worker, whichever worker is the victim", "myth_yield_ex with all five scheduling options" };
  snprintf(b, n, "%s: %d threads, %d yields each", fm[p->fam], p->n, p->y);
}
static prog_t * cur; static volatile int ran[8], resumed[8], declined, accepted, peeked; static myth_mutex_t m;
static void * body(void * a) {
  int i = (int)(long)a;
  ran[i]++;
  MV_CHECK(ran[i] == 1, "thread %d started %d times", i, ran[i]);
  for (int k = 0; k < cur->y; k++) { if (cur->fam == FM_YIELDEX) myth_yield_ex((i + k) % 5); else myth_yield(); resumed[i]++; }
  if (cur->fam == FM_MUTEX) { myth_mutex_lock(&m); myth_yield(); myth_mutex_unlock(&m); }
  return (void *)(long)(i + 10);
}
/* FM_OCCUPY: a thread that keeps its worker (spins without yielding) until main, which sits in the same worker's queue, has run somewhere else */
static volatile int occ_phase;
static void * occ_body(void * a) {
  int want = (int)(long)a;
  ran[want]++;
  while (occ_phase < want) mv_spin_until_changed(&occ_phase, sizeof occ_phase);
  return (void *)(long)(want + 10);
}
static void run_occupy(void) {
  myth_thread_t th[4]; int victims = 0;
  for (int ph = 1; ph <= cur->n; ph++) {
    int w_before = mv_worker();
    th[ph] = myth_create(occ_body, (void *)(long)ph);      /* child first: the child occupies this worker, main waits in its queue */
    MV_CHECK(mv_worker() != w_before, "main continued on the worker that its spinning child occupies");
    victims |= 1 << w_before;
    mv_point(&occ_phase, sizeof occ_phase); occ_phase = ph;
  }
  for (int ph = 1; ph <= cur->n; ph++) { void * r = 0; myth_join(th[ph], &r); MV_CHECK((long)r == ph + 10, "thread %d result %ld", ph, (long)r); }
  mv_obs("victims=%x main on w%d", victims, mv_worker());
  mv_finish();
}
static int decide_cnt, passed_cnt;
static int decide(myth_thread_t th, void * u) { (void)th; (void)u; if ((decide_cnt++ & 1) == 0) { declined++; return 0; } accepted++; return 1; }
static myth_thread_t custom_steal(int rank) {
  int nw = myth_get_num_workers(), victim = (rank + 1) % nw;
  size_t sz = 0;
  myth_thread_t seen = myth_wsapi_runqueue_peek(victim, 0, &sz);
  if (seen) peeked++;
  myth_thread_t got = myth_wsapi_runqueue_take(victim, decide, 0);
  /* every other stolen thread is handed on to the victim's neighbour with the thief-side pass; if the pass is refused the thief runs it itself */
  if (got && (passed_cnt++ & 1) == 0 && nw > 2) { int to = (victim + 1) % nw; if (to != rank && myth_wsapi_runqueue_pass(to, got)) { mv_cover(3); return NULL; } }
  return got;
}
static void run(int tier, int prog) {
  build(); cur = &P[tier][prog];
  mv_start(cur->W);
  if (cur->fam == FM_OCCUPY) { run_occupy(); return; }
  myth_mutex_init(&m, 0);
  myth_steal_func_t prev = 0;
  if (cur->fam == FM_CUSTOM) prev = myth_wsapi_set_stealfunc(custom_steal);
  myth_thread_t th[8]; int n = cur->n;
  for (int i = 0; i < n; i++) {
    if (cur->fam == FM_CLIMB) h_spawn(V_EX_PARENT_FIRST, &th[i], body, (void *)(long)i);
    else th[i] = myth_create(body, (void *)(long)i);
  }
  for (int i = 0; i < n; i++) { void * r = 0; myth_join(th[i], &r); MV_CHECK((long)r == i + 10, "thread %d result %ld", i, (long)r); }
  for (int i = 0; i < n; i++) { MV_CHECK(ran[i] == 1, "thread %d ran %d times", i, ran[i]); MV_CHECK(resumed[i] == cur->y, "thread %d was resumed %d times after %d yields", i, resumed[i], cur->y); }
  if (cur->fam == FM_CUSTOM) { myth_wsapi_set_stealfunc(prev); if (declined) mv_cover(0); if (accepted) mv_cover(1); if (peeked) mv_cover(2); }
  mv_obs("main on w%d", mv_worker());
  mv_finish();
}
static const char * const cover_names[] = { "steal_declined", "steal_accepted", "peek_saw_thread", "stolen_thread_passed_on", 0 };
static uint64_t cover_required(int tier) { (void)tier; return 15; }
mc_harness_t mc_harness = { "C02", "sched", nprogs, describe, config, run, cover_names, cover_required };
