/* C09 (E3 part) --- the full/empty lock used before any MassiveThreads thread exists: every legal, non-blocking sequence of
 * felock operations up to a depth, issued as the very first library calls of a process (and as the first calls after myth_fini),
 * compared step by step with the two-bit reference model (locked, status); afterwards a real producer/consumer exchange over the
 * same lock shows that the lock was really released and the status really published.  One process per sequence. */
#include <stdio.h>
#include <stdlib.h>
#include <string.h>
#include <unistd.h>
#include <sys/wait.h>
#include "myth/myth.h"
#include "seqmc.h"
enum { OP_L, OP_U, OP_W0, OP_W1, OP_M0, OP_M1, NOPS };
static const char * const OPN[NOPS] = { "lock", "unlock", "wait_and_lock(0)", "wait_and_lock(1)", "mark_and_signal(0)", "mark_and_signal(1)" };
static int legal(int op, int locked, int status) {
  switch (op) { case OP_L: return !locked; case OP_U: case OP_M0: case OP_M1: return locked; case OP_W0: return !locked && status == 0; default: return !locked && status == 1; }
}
static void step(int op, int * locked, int * status) {
  switch (op) { case OP_L: case OP_W0: case OP_W1: *locked = 1; break; case OP_U: *locked = 0; break; case OP_M0: *status = 0; *locked = 0; break; default: *status = 1; *locked = 0; }
}
static myth_felock_t fe; static volatile int flipped, want;
static void * nop(void * a) { return a; }
static void * flipper(void * a) { (void)a; myth_felock_wait_and_lock(&fe, want); flipped = 1; myth_felock_mark_and_signal(&fe, !want); return 0; }
static void describe(const int * seq, int n, char * b, size_t len) { size_t k = 0; b[0] = 0; for (int i = 0; i < n && k + 24 < len; i++) k += snprintf(b + k, len - k, "%s%s", i ? "; " : "", OPN[seq[i]]); }
static int run_case(const int * seq, int n, int after, int W, int attr, char * m, size_t mlen) {
  char wb[8]; snprintf(wb, sizeof wb, "%d", W); setenv("MYTH_NUM_WORKERS", wb, 1); setenv("MYTH_BIND_WORKERS", "0", 1);
  if (after) { myth_init(); myth_thread_t t = myth_create(nop, 0); myth_join(t, 0); myth_fini(); }
  memset(&fe, 0x5a, sizeof fe);
  myth_felockattr_t at; if (attr) myth_felockattr_init(&at);
  myth_felock_init(&fe, attr ? &at : 0);
  int locked = 0, status = 0;
  for (int i = 0; i < n; i++) {
    int r;
    switch (seq[i]) { case OP_L: r = myth_felock_lock(&fe); break; case OP_U: r = myth_felock_unlock(&fe); break; case OP_W0: r = myth_felock_wait_and_lock(&fe, 0); break;
      case OP_W1: r = myth_felock_wait_and_lock(&fe, 1); break; case OP_M0: r = myth_felock_mark_and_signal(&fe, 0); break; default: r = myth_felock_mark_and_signal(&fe, 1); }
    step(seq[i], &locked, &status);
    if (r != 0) { snprintf(m, mlen, "step %d (%s) returned %d", i, OPN[seq[i]], r); return 1; }
    if (myth_felock_status(&fe) != status) { snprintf(m, mlen, "status is %d after step %d (%s), the model says %d", myth_felock_status(&fe), i, OPN[seq[i]], status); return 1; }
  }
  if (locked) myth_felock_unlock(&fe);
  /* a real exchange: a thread waits for the current status and flips it, the caller waits for the flipped status */
  want = status; myth_thread_t t = myth_create(flipper, 0);
  myth_felock_wait_and_lock(&fe, !status);
  if (!flipped) { snprintf(m, mlen, "wait_and_lock(%d) returned before anybody published that status", !status); return 1; }
  myth_felock_unlock(&fe);
  myth_join(t, 0);
  if (myth_felock_status(&fe) != !status) { snprintf(m, mlen, "status %d at the end", myth_felock_status(&fe)); return 1; }
  myth_felock_destroy(&fe);
  return 0;
}
static int tier; static const char * g_argv0;
static void one(const int * seq, int n) {
  static const int WS[3] = { 1, 2, 4 };
  for (int after = 0; after < 2; after++) for (int wi = 0; wi < (tier ? 3 : 2); wi++) {
    int attr = (n + wi) & 1;
    int pfd[2]; if (pipe(pfd)) continue; fflush(NULL);
    pid_t pid = fork();
    if (pid == 0) { close(pfd[0]); char m[200] = ""; int bad = run_case(seq, n, after, WS[wi], attr, m, sizeof m); if (write(pfd[1], m, strlen(m) + 1) < 0) {} _exit(bad); }
    close(pfd[1]);
    int st; int hung = sq_wait_child(pid, 30, &st); char msg[300] = ""; ssize_t k = read(pfd[0], msg, sizeof msg - 1); if (k < 0) k = 0; msg[k] = 0; close(pfd[0]);
    SQ.states++; SQ.evaluations++; SQ.transitions += n + 4;
    if (hung || !WIFEXITED(st) || WEXITSTATUS(st)) {
      char d[200], key[400]; describe(seq, n, d, sizeof d);
      snprintf(key, sizeof key, "felock first use %s: init; %s%sthen a producer/consumer exchange; %d worker(s)", after ? "after init + fini" : "of the process", d, n ? "; " : "", WS[wi]);
      sq_found(key, "", "%s", hung ? "the process hangs" : !WIFEXITED(st) ? "the process crashes" : msg[0] ? msg : "the process exited with a failure status inside the library (an assertion of the library, or its own fatal diagnostic)");
    }
  }
}
static void rec(int * seq, int n, int maxd, int locked, int status) {
  one(seq, n);
  if (n == maxd) return;
  for (int op = 0; op < NOPS; op++) if (legal(op, locked, status)) { int l = locked, s = status; step(op, &l, &s); seq[n] = op; rec(seq, n + 1, maxd, l, s); }
}
int main(int argc, char ** argv) {
  const char * stats = "build/c09first/stats.json";
  for (int i = 1; i < argc; i++) { if (!strcmp(argv[i], "--stats")) stats = argv[++i]; else if (!strcmp(argv[i], "--tier")) tier = !strcmp(argv[++i], "thorough"); }
  g_argv0 = argv[0];
  sq_begin("C09", "c09first", "E3 seqmc (every legal non-blocking operation sequence up to a depth as the first library calls, one process each)", "replays", argv[0]);
  if (!freopen("/dev/null", "w", stderr)) {}
  int seq[12];
  rec(seq, 0, tier ? 8 : 5, 0, 0);
  SQ.distinct = SQ.states;
  sq_sample("fresh process, MYTH_NUM_WORKERS=2: felock_init; wait_and_lock(0); mark_and_signal(1); then a thread waits for 1 and publishes 0 while the caller waits for 0");
  sq_detail("alphabet {lock, unlock, wait_and_lock(0|1), mark_and_signal(0|1)} restricted to calls that do not block, depth <= 5 (quick) / 8 (thorough), x {fresh, after init+fini} x workers {1,2[,4]}");
  return sq_end(stats);
}
