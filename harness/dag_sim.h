/* dag_sim.h --- shared machinery of the two DAG Recorder components (C18 totals, C19 files), engine E3.
 *
 *   programs   : every well-nested task tree of   task ::= (section | other)* end
 *                                                 section ::= (section | create | other)* wait
 *                written as a string:  '[' ... ']' a section (']' is the wait),  'c{' ... '}' a create with the body
 *                of the created task,  'o' an `other` interval;  the root task is the whole string.
 *   executions : a SERIAL discrete-event simulation of W workers running the program work-first (the created task
 *                runs first on the creating worker, the parent's continuation sits in that worker's deque and may be
 *                taken - oldest first - by an idle worker; a task blocked in a wait is resumed by the worker that ends
 *                its last child; a task may come back from `other` on another idle worker).  Every scheduling
 *                alternative is a numbered choice; schedules are enumerated depth-first over the choice vectors.
 *   recorder   : the simulation only produces a SCRIPT (a list of dr_* calls with worker id, virtual clock and
 *                file/line) and its own list of intervals; the script is then replayed against the real recorder,
 *                compiled into this binary, once per option setting.  The oracle is computed from the interval list
 *                and the program text only.
 *
 *   large      : next to the exhaustive enumeration a fixed family of hand-shaped large executions (hundreds of tasks:
 *                wide help-first / work-first, deep, long; see "large executions" below), one schedule each, through
 *                the same replay, oracle and option grids.
 *
 * The component file defines   static void component_case(void)   (what to check for the case described by CASE)
 * and calls dag_main().
 */
#pragma once
#include <stdio.h>
#include <stdlib.h>
#include <string.h>
#include <stdarg.h>
#include <setjmp.h>
#include <signal.h>
#include <errno.h>
#include <fcntl.h>
#include <unistd.h>
#include <sys/mman.h>
#include <sys/stat.h>
#include <sys/wait.h>
#include <pthread.h>
#include "seqmc.h"

/* ------------------------------------------------------------------ the recorder, compiled into this unit */
#define NWORKERS_MAX 3
static int cur_worker;          /* the simulated worker on whose behalf the next dr_* call is made */
static int cur_nworkers;        /* W of the current case (<= NWORKERS_MAX) */
#define dr_get_worker()      cur_worker
#define dr_get_max_workers() cur_nworkers
#define DAG_RECORDER 2
#include "dag_recorder_impl.h"
#include "dr_dump.c"            /* as a unit: dr_make_pi_dag / dr_destroy_pi_dag / dr_dag_count_nodes are static there */

static dr_clock_t vclock;       /* the virtual clock: set by the replay loop before every call */
static dr_clock_t vclock_read(void) { return vclock; }
dr_clock_t (*dr_verif_clock)(void) = vclock_read;

/* ------------------------------------------------------------------ traps: a failed dr_check calls exit(1), an
 * assert calls __assert_fail; inside a case both come back here so that one abort does not end the enumeration.
 * (Signals are handled one level up: the pool re-forks a worker that died and continues behind the case.) */
static jmp_buf trap_env; static volatile int trap_armed; static char trap_msg[400], trap_cls[100];
void exit(int code) {
  if (trap_armed) { trap_armed = 0; snprintf(trap_msg, sizeof trap_msg, "exit(%d)", code); longjmp(trap_env, 2); }
  fflush(NULL); _exit(code);
}
void __assert_fail(const char * e, const char * f, unsigned l, const char * fn) {
  const char * b = strrchr(f, '/'); b = b ? b + 1 : f;
  if (trap_armed) {
    trap_armed = 0; snprintf(trap_msg, sizeof trap_msg, "assertion `%s' failed in %s (%s:%u)", e, fn, b, l);
    snprintf(trap_cls, sizeof trap_cls, "abort:assert:%s:%s", fn, e); longjmp(trap_env, 3);
  }
  fprintf(stderr, "assert %s %s:%u\n", e, f, l); fflush(NULL); _exit(66);
}

/* ------------------------------------------------------------------ programs
 * All arrays grow on demand: the enumerated programs have at most 4 tasks and 20 intervals, the hand-shaped large
 * executions (see "large executions" below) up to 1001 tasks and a few thousand intervals. */
#define GROW(ptr, cap, need) do { if ((need) > (cap)) { long nc_ = (cap) ? (cap) : 8; while (nc_ < (need)) nc_ *= 2; \
      (ptr) = realloc((ptr), sizeof *(ptr) * nc_); memset((ptr) + (cap), 0, sizeof *(ptr) * (nc_ - (cap))); (cap) = nc_; } } while (0)
enum { OP_BEGIN, OP_CREATE, OP_OTHER, OP_WAIT, OP_END };
typedef struct { int kind, child, sec, id; } op_t;            /* id: number of the interval this op ends (not for BEGIN) */
typedef struct { int nops; long cap; op_t * ops; int parent, parent_sec; } ptask_t;
typedef struct {
  char name[48];                            /* what the key calls it: the string itself, or family:size of a large execution */
  const char * str;                         /* the program text (owned by the caller) */
  int ntasks, nsecs, niv, ncreate, nwait, nother, nimplicit;
  int large, lkind, lsize, lW;              /* large executions: family, size, workers */
  long capt, caps, capv, capk;
  ptask_t * t;
  int * sec_depth;
  int * iv_task, * iv_kind;                 /* by interval id: owning task, OP_* that ends it */
} prog_t;

static const char * P_s; static prog_t * P_p; static int P_err;
static int p_new_task(int parent, int parent_sec) {
  int ti = P_p->ntasks++; GROW(P_p->t, P_p->capt, P_p->ntasks);
  P_p->t[ti].nops = 0; P_p->t[ti].parent = parent; P_p->t[ti].parent_sec = parent_sec; return ti;
}
static void p_op(int ti, int kind, int child, int sec) {
  ptask_t * t = &P_p->t[ti];
  GROW(t->ops, t->cap, t->nops + 2);        /* + 2: the simulator peeks at the op behind a BEGIN */
  op_t * o = &t->ops[t->nops++]; o->kind = kind; o->child = child; o->sec = sec; o->id = -1;
  if (kind != OP_BEGIN) { GROW(P_p->iv_task, P_p->capv, P_p->niv + 1); o->id = P_p->niv; P_p->iv_task[o->id] = ti; P_p->niv++; }
}
static void p_task(int ti);
static void p_section(int ti, int depth) {
  int s = P_p->nsecs++; GROW(P_p->sec_depth, P_p->caps, P_p->nsecs);
  P_p->sec_depth[s] = depth;
  p_op(ti, OP_BEGIN, -1, s);
  while (!P_err) {
    char c = *P_s;
    if (c == 'c' && P_s[1] == '{') {
      int ch = p_new_task(ti, s); P_p->ncreate++;
      p_op(ti, OP_CREATE, ch, s); P_s += 2; p_task(ch);
    } else if (c == 'o') { p_op(ti, OP_OTHER, -1, s); P_p->nother++; P_s++; }
    else if (c == '[') { P_s++; p_section(ti, depth + 1); }
    else if (c == ']') { p_op(ti, OP_WAIT, -1, s); P_p->nwait++; P_s++; return; }
    else { P_err = 1; return; }
  }
}
static void p_task(int ti) {
  while (!P_err) {
    char c = *P_s;
    if (c == '[') { P_s++; p_section(ti, 1); }
    else if (c == 'o') { p_op(ti, OP_OTHER, -1, -1); P_p->nother++; P_s++; }
    else if (c == '}' && ti != 0) { p_op(ti, OP_END, -1, -1); P_s++; return; }
    else if (c == 0 && ti == 0) { p_op(ti, OP_END, -1, -1); return; }
    else { P_err = 1; return; }
  }
}
/* p keeps its arrays from one parse to the next */
static int prog_parse(prog_t * p, const char * s) {
  p->ntasks = p->nsecs = p->niv = p->ncreate = p->nwait = p->nother = p->nimplicit = 0; p->large = 0;
  snprintf(p->name, sizeof p->name, "%s", s); p->str = s; P_s = s; P_p = p; P_err = 0;
  p_new_task(-1, -1);
  p_task(0);
  if (P_err) return 0;
  /* interval kinds by id */
  GROW(p->iv_kind, p->capk, p->niv + 1);
  for (int ti = 0; ti < p->ntasks; ti++) for (int i = 0; i < p->t[ti].nops; i++) if (p->t[ti].ops[i].kind != OP_BEGIN) p->iv_kind[p->t[ti].ops[i].id] = p->t[ti].ops[i].kind;
  /* top-level sections that may be opened implicitly (no dr_begin_section: the first create / wait opens them) */
  for (int ti = 0; ti < p->ntasks; ti++) for (int i = 0; i + 1 < p->t[ti].nops; i++) {
    op_t * o = &p->t[ti].ops[i];
    if (o->kind == OP_BEGIN && p->sec_depth[o->sec] == 1 && (o[1].kind == OP_CREATE || o[1].kind == OP_WAIT)) p->nimplicit++;
  }
  return 1;
}

/* all program strings within the bounds, in a fixed (lexicographic by grammar alternative) order */
static char (*PROGS)[48]; static long NPROGS, PROGS_CAP;
static struct { int maxt, maxsec, maxdepth, maxcreate, task_other_maxt; } GB;
typedef struct { int kind, others, creates, depth; } gframe_t;
static gframe_t g_st[16]; static int g_sp, g_ntasks, g_nsecs; static char g_s[64];
static int g_task_frame(void) { for (int i = g_sp - 1; i >= 0; i--) if (g_st[i].kind == 0) return i; return 0; }
static void g_rec(int n) {
  if (g_sp == 0) {
    g_s[n] = 0;
    if (NPROGS == PROGS_CAP) { PROGS_CAP = PROGS_CAP ? PROGS_CAP * 2 : 4096; PROGS = realloc(PROGS, PROGS_CAP * 48); }
    strcpy(PROGS[NPROGS++], g_s); return;
  }
  gframe_t * f = &g_st[g_sp - 1], * tf = &g_st[g_task_frame()];
  if (f->kind == 0) {                                    /* in a task body, outside any section */
    if (g_nsecs < GB.maxsec) { g_s[n] = '['; g_nsecs++; g_st[g_sp++] = (gframe_t){ 1, 0, 0, 1 }; g_rec(n + 1); g_sp--; g_nsecs--; }
    if (tf->others < 1) { g_s[n] = 'o'; tf->others++; g_rec(n + 1); tf->others--; }
    { gframe_t save = *f; g_sp--; if (g_sp > 0) { g_s[n] = '}'; g_rec(n + 1); } else g_rec(n); g_st[g_sp++] = save; }
  } else {                                               /* in a section */
    if (f->creates < GB.maxcreate && g_ntasks < GB.maxt) { g_s[n] = 'c'; g_s[n + 1] = '{'; f->creates++; g_ntasks++; g_st[g_sp++] = (gframe_t){ 0, 0, 0, 0 }; g_rec(n + 2); g_sp--; g_ntasks--; f->creates--; }
    if (tf->others < 1) { g_s[n] = 'o'; tf->others++; g_rec(n + 1); tf->others--; }
    if (f->depth < GB.maxdepth && g_nsecs < GB.maxsec) { int d = f->depth; g_s[n] = '['; g_nsecs++; g_st[g_sp++] = (gframe_t){ 1, 0, 0, d + 1 }; g_rec(n + 1); g_sp--; g_nsecs--; }
    { gframe_t save = *f; g_sp--; g_s[n] = ']'; g_rec(n + 1); g_st[g_sp++] = save; }
  }
}
/* task_other_maxt: an `other' directly in a task body (outside every section) only in programs of at most that many tasks */
static void gen_programs(int maxt, int maxsec, int task_other_maxt) {
  GB.maxt = maxt; GB.maxsec = maxsec; GB.maxdepth = 2; GB.maxcreate = 2; GB.task_other_maxt = task_other_maxt;
  NPROGS = 0; g_sp = 0; g_ntasks = 1; g_nsecs = 0; g_st[g_sp++] = (gframe_t){ 0, 0, 0, 0 }; g_rec(0);
  long k = 0;
  for (long i = 0; i < NPROGS; i++) {
    int nt = 1, depth = 0, bare = 0;                 /* depth: open sections of the innermost task */
    int stack[16], sp = 0;
    for (const char * c = PROGS[i]; *c; c++) {
      if (*c == '[') depth++; else if (*c == ']') depth--;
      else if (*c == '{') { nt++; stack[sp++] = depth; depth = 0; } else if (*c == '}') depth = stack[--sp];
      else if (*c == 'o' && depth == 0) bare = 1;
    }
    if (bare && nt > task_other_maxt) continue;
    if (k != i) strcpy(PROGS[k], PROGS[i]);
    k++;
  }
  NPROGS = k;
}

/* ------------------------------------------------------------------ timing: interval lengths from {1,3,10} and the
 * gap G between an `enter' call and the following `start / return' call */
static const int LEN3[3] = { 1, 3, 10 };
typedef struct { int pat, gap; } timing_t;
static int iv_len(int pat, int id) {
  switch (pat) {
  case 0: return LEN3[(id + 1) % 3];             /* 3 10 1 3 10 1 ... */
  case 1: return LEN3[(2 * id + 2) % 3];         /* 10 3 1 10 3 1 ... */
  case 2: return 1;
  case 3: return 10;
  case 4: return LEN3[(id / 2) % 3];             /* 1 1 3 3 10 10 ... */
  case 5: return LEN3[(id * id + id / 3) % 3];
  default: return 3;
  }
}

/* ------------------------------------------------------------------ the simulator */
enum { C_START, C_BEGIN, C_ENTER_CREATE, C_START_TASK, C_RET_CREATE, C_ENTER_WAIT, C_RET_WAIT, C_ENTER_OTHER, C_RET_OTHER, C_END_TASK, C_STOP };
static const char * const CALLN[] = { "dr_start", "dr_begin_section", "dr_enter_create_task", "dr_start_task", "dr_return_from_create_task",
				      "dr_enter_wait_tasks", "dr_return_from_wait_tasks", "dr_enter_other", "dr_return_from_other", "dr_end_task", "dr_stop" };
typedef struct { int call, worker, task, line, child; long t; } sc_t;
typedef struct { int task, opid, kind, worker, sline, eline; long t0, t1; } iv_t;
#define MAXCH 24
typedef struct {
  int W, nsc; sc_t * sc; long capsc;
  int niv; iv_t * iv; long capiv;                /* in the order the intervals END in the script */
  int nch, ch[MAXCH], nalt[MAXCH];               /* the choice vector of this schedule */
  int nsteal; char steals[80];                   /* readable: T<task>@<c|o><interval id>>w<thief> */
  long t_end;
} sched_t;

#define T0 100L                                  /* the recorder requires clock values > 0 */
enum { TS_NEW, TS_RUN, TS_DEQUE, TS_WAIT, TS_DONE };
static const prog_t * DP; static timing_t DT; static int DW, DIMP, DMAXSTEAL; static sched_t * DS;
typedef struct { int pc, worker, state, sline; long t0; } dts_t;
static dts_t * dts; static long dts_cap;
static struct { int cur; long tnext; int * dq; long dqcap; int ndq; } dws[NWORKERS_MAX];
static int * d_out, * d_waiter; static long d_outcap, d_waitcap;
static int d_serial, d_steals, d_preflen, d_err, d_done, d_used[NWORKERS_MAX];
static int DPOLICY;      /* 0: every alternative is an enumerated choice; 1 (large executions): always the first steal / migration on offer */
/* the idle workers that may take work from (or a task coming back on) worker `from': every idle worker that has
   already run something, but of the workers that never ran anything only the lowest-numbered one (they are
   interchangeable: the recorder treats worker ids as array indices and nothing else) */
static int d_idle_set(int from, int * idle) {
  int ni = 0, fresh = 0;
  for (int x = 0; x < DW; x++) if (x != from && dws[x].cur < 0) { if (!d_used[x]) { if (fresh) continue; fresh = 1; } idle[ni++] = x; }
  return ni;
}

static int d_choose(int n) {
  if (n <= 1) return 0;
  if (DPOLICY) return 1;
  if (DS->nch >= MAXCH) { d_err = 1; return 0; }
  int i = DS->nch++;
  if (i >= d_preflen) DS->ch[i] = 0;
  DS->nalt[i] = n;
  if (DS->ch[i] >= n) { d_err = 1; return 0; }
  return DS->ch[i];
}
static void d_emit(int call, int w, int task, int line, int child, long t) {
  GROW(DS->sc, DS->capsc, DS->nsc + 1);
  DS->sc[DS->nsc++] = (sc_t){ call, w, task, line, child, t };
}
static int d_next_len(int task) {
  const ptask_t * pt = &DP->t[task];
  for (int i = dts[task].pc; i < pt->nops; i++) if (pt->ops[i].kind != OP_BEGIN) return iv_len(DT.pat, pt->ops[i].id);
  d_err = 1; return 1;
}
/* task starts / resumes an interval on worker w at time t through `call' */
static void d_begin_iv(int call, int task, int w, long t) {
  int line = 1000 + d_serial++;
  d_emit(call, w, task, line, -1, t);
  if (dws[w].cur >= 0) d_err = 1;                       /* a worker does one thing at a time */
  dts[task].worker = w; dts[task].t0 = t; dts[task].sline = line; dts[task].state = TS_RUN; d_used[w] = 1;
  dws[w].cur = task; dws[w].tnext = t + d_next_len(task);
}
static void d_note_steal(int task, char how, int id, int thief) {
  if (DPOLICY) { DS->nsteal++; d_steals++; return; }
  int o = strlen(DS->steals);
  snprintf(DS->steals + o, sizeof DS->steals - o, "%sT%d@%c%d>w%d", o ? "," : "", task, how, id, thief);
  DS->nsteal++; d_steals++;
}
static int d_last_id(int task) {                        /* id of the interval the task ended last (its create / other) */
  const ptask_t * pt = &DP->t[task];
  for (int i = dts[task].pc - 1; i >= 0; i--) if (pt->ops[i].kind != OP_BEGIN) return pt->ops[i].id;
  return -1;
}
/* worker w has nothing to run at time t: it may take the oldest continuation of another worker's deque */
static void d_idle(int w, long t) {
  int vict[NWORKERS_MAX], nv = 0;
  for (int x = 0; x < DW; x++) if (x != w && dws[x].ndq > 0) vict[nv++] = x;
  if (nv && d_steals < DMAXSTEAL) {
    int c = d_choose(1 + nv);
    if (c) {
      int v = vict[c - 1], S = dws[v].dq[0];
      memmove(dws[v].dq, dws[v].dq + 1, sizeof(int) * --dws[v].ndq);
      d_note_steal(S, 'c', d_last_id(S), w);
      d_begin_iv(C_RET_CREATE, S, w, t + DT.gap);
    }
  }
}
/* worker w stopped running its task at time t for a reason other than the task ending */
static void d_free(int w, long t) {
  dws[w].cur = -1;
  if (dws[w].ndq) { int S = dws[w].dq[--dws[w].ndq]; d_begin_iv(C_RET_CREATE, S, w, t + DT.gap); }
  else d_idle(w, t);
}
/* worker v just pushed a continuation at time t: an idle worker may take the oldest entry of v's deque */
static void d_offer(int v, long t) {
  int idle[NWORKERS_MAX], ni = d_idle_set(v, idle);
  if (ni && dws[v].ndq > 0 && d_steals < DMAXSTEAL) {
    int c = d_choose(1 + ni);
    if (c) {
      int x = idle[c - 1], S = dws[v].dq[0];
      memmove(dws[v].dq, dws[v].dq + 1, sizeof(int) * --dws[v].ndq);
      d_note_steal(S, 'c', d_last_id(S), x);
      d_begin_iv(C_RET_CREATE, S, x, t + DT.gap);
    }
  }
}
static void d_fire(int w) {
  long t = dws[w].tnext; int T = dws[w].cur; const ptask_t * pt = &DP->t[T];
  op_t op;
  for (;;) {
    op = pt->ops[dts[T].pc];
    if (op.kind != OP_BEGIN) break;
    int nk = pt->ops[dts[T].pc + 1].kind;
    int implicit = DIMP && DP->sec_depth[op.sec] == 1 && (nk == OP_CREATE || nk == OP_WAIT);
    if (!implicit) d_emit(C_BEGIN, w, T, 0, -1, t);
    dts[T].pc++;
  }
  dts[T].pc++;
  GROW(DS->iv, DS->capiv, DS->niv + 1);
  DS->iv[DS->niv++] = (iv_t){ T, op.id, op.kind, w, dts[T].sline, 100 + op.id, dts[T].t0, t };
  switch (op.kind) {
  case OP_CREATE: {
    int C = op.child;
    d_emit(C_ENTER_CREATE, w, T, 100 + op.id, C, t);
    d_out[op.sec]++;
    dts[T].state = TS_DEQUE; dws[w].dq[dws[w].ndq++] = T; dws[w].cur = -1;
    d_begin_iv(C_START_TASK, C, w, t + DT.gap);
    d_offer(w, t);
    break;
  }
  case OP_OTHER: {
    d_emit(C_ENTER_OTHER, w, T, 100 + op.id, -1, t);
    int idle[NWORKERS_MAX], x = w, ni = d_idle_set(w, idle);
    if (ni && d_steals < DMAXSTEAL) { int c = d_choose(1 + ni); if (c) { x = idle[c - 1]; d_note_steal(T, 'o', op.id, x); } }
    dws[w].cur = -1;
    d_begin_iv(C_RET_OTHER, T, x, t + DT.gap);
    if (x != w) d_free(w, t);
    break;
  }
  case OP_WAIT:
    d_emit(C_ENTER_WAIT, w, T, 100 + op.id, -1, t);
    dws[w].cur = -1;
    if (d_out[op.sec] == 0) d_begin_iv(C_RET_WAIT, T, w, t + DT.gap);
    else { dts[T].state = TS_WAIT; d_waiter[op.sec] = T; d_free(w, t); }
    break;
  case OP_END:
    dws[w].cur = -1; dts[T].state = TS_DONE;
    if (T == 0) { d_emit(C_STOP, w, 0, 100 + op.id, -1, t); d_done = 1; DS->t_end = t; break; }
    d_emit(C_END_TASK, w, T, 100 + op.id, -1, t);
    {
      int s = pt->parent_sec; d_out[s]--;
      if (dws[w].ndq) { int S = dws[w].dq[--dws[w].ndq]; d_begin_iv(C_RET_CREATE, S, w, t + DT.gap); }
      else if (d_out[s] == 0 && d_waiter[s] >= 0) { int Pn = d_waiter[s]; d_waiter[s] = -1; d_begin_iv(C_RET_WAIT, Pn, w, t + DT.gap); }
      else d_idle(w, t);
    }
    break;
  default: d_err = 1;
  }
}
/* run one schedule: the first `preflen' choices are taken from s->ch, the rest default to 0 (no steal) */
static int sim_run(const prog_t * p, timing_t tm, int W, int imp, int maxsteal, sched_t * s, int preflen) {
  DP = p; DT = tm; DW = W; DIMP = imp; DMAXSTEAL = maxsteal; DS = s; d_preflen = preflen;
  s->W = W; s->nsc = 0; s->niv = 0; s->nch = 0; s->nsteal = 0; s->steals[0] = 0;
  d_serial = 0; d_steals = 0; d_err = 0; d_done = 0;
  GROW(dts, dts_cap, p->ntasks); memset(dts, 0, sizeof(dts_t) * p->ntasks); memset(d_used, 0, sizeof d_used);
  for (int w = 0; w < NWORKERS_MAX; w++) { GROW(dws[w].dq, dws[w].dqcap, p->ntasks); dws[w].cur = -1; dws[w].ndq = 0; dws[w].tnext = 0; }
  GROW(d_out, d_outcap, p->nsecs + 1); GROW(d_waiter, d_waitcap, p->nsecs + 1);
  for (int i = 0; i < p->nsecs; i++) { d_out[i] = 0; d_waiter[i] = -1; }
  d_begin_iv(C_START, 0, 0, T0);
  for (int guard = 0; !d_done && !d_err; guard++) {
    int w = -1;
    for (int x = 0; x < W; x++) if (dws[x].cur >= 0 && (w < 0 || dws[x].tnext < dws[w].tnext)) w = x;
    if (w < 0 || guard > 4 * p->niv + 200) { d_err = 1; break; }
    d_fire(w);
  }
  for (int i = 0; i < p->ntasks; i++) if (dts[i].state != TS_DONE) d_err = 1;
  if (s->niv != p->niv) d_err = 1;
  return !d_err;
}
/* advance the choice vector depth-first; 0 when exhausted */
static int sched_next(sched_t * s, int * preflen) {
  int i = s->nch - 1;
  while (i >= 0 && s->ch[i] + 1 >= s->nalt[i]) i--;
  if (i < 0) return 0;
  s->ch[i]++; *preflen = i + 1; return 1;
}

/* ------------------------------------------------------------------ help-first execution (large executions only)
 * The root task never leaves a create: it issues all creates of a section back to back on its worker and only then
 * waits.  The created tasks (leaf tasks: optional `other's, then end) are started afterwards, round-robin on the
 * other workers, one after the other on each; the worker that ends the last of them resumes the root behind the wait.
 * While the root waits, every created task is ready or running: the replay of such a DAG has WIDTH events pending. */
static int sim_helpfirst(const prog_t * p, timing_t tm, int W, int imp, sched_t * s) {
  if (W < 2) return 0;
  DS = s; d_err = 0;
  s->W = W; s->nsc = 0; s->niv = 0; s->nch = 0; s->nsteal = 0; snprintf(s->steals, sizeof s->steals, "help-first");
  int serial = 0, cw = 0;                       /* cw: the worker the root is on */
  long tfree[NWORKERS_MAX] = { 0 }, t = T0;     /* tfree[x]: when worker x has finished what it was given */
  static int * pend; static long pendcap; int npend = 0;
  const ptask_t * rt = &p->t[0];
  int sline = 1000 + serial++; long t0 = t;
  d_emit(C_START, cw, 0, sline, -1, t);
  for (int i = 0; i < rt->nops && !d_err; i++) {
    op_t op = rt->ops[i];
    if (op.kind == OP_BEGIN) continue;
    long tf = t0 + iv_len(tm.pat, op.id);
    { int j = i;                                  /* the BEGINs directly in front of this op, in order */ while (j > 0 && rt->ops[j - 1].kind == OP_BEGIN) j--;
      for (; j < i; j++) { int nk = rt->ops[j + 1].kind; int implicit = imp && p->sec_depth[rt->ops[j].sec] == 1 && (nk == OP_CREATE || nk == OP_WAIT); if (!implicit) d_emit(C_BEGIN, cw, 0, 0, -1, tf); } }
    GROW(s->iv, s->capiv, s->niv + 1);
    s->iv[s->niv++] = (iv_t){ 0, op.id, op.kind, cw, sline, 100 + op.id, t0, tf };
    switch (op.kind) {
    case OP_CREATE:
      d_emit(C_ENTER_CREATE, cw, 0, 100 + op.id, op.child, tf);
      GROW(pend, pendcap, npend + 1); pend[npend++] = op.child;
      t0 = tf + tm.gap; sline = 1000 + serial++; d_emit(C_RET_CREATE, cw, 0, sline, -1, t0);
      break;
    case OP_OTHER:
      d_emit(C_ENTER_OTHER, cw, 0, 100 + op.id, -1, tf);
      t0 = tf + tm.gap; sline = 1000 + serial++; d_emit(C_RET_OTHER, cw, 0, sline, -1, t0);
      break;
    case OP_WAIT: {
      d_emit(C_ENTER_WAIT, cw, 0, 100 + op.id, -1, tf);
      long tlast = tf; int xlast = cw, rr = 0;
      tfree[cw] = tf;
      for (int k = 0; k < npend; k++) {
	int C = pend[k], x; const ptask_t * ct = &p->t[C];
	do { x = rr++ % W; } while (x == cw);
	long c0 = (tfree[x] > tf ? tfree[x] : tf) + tm.gap; int csl = 1000 + serial++;
	d_emit(C_START_TASK, x, C, csl, -1, c0);
	for (int q = 0; q < ct->nops && !d_err; q++) {
	  op_t co = ct->ops[q]; long cf = c0 + iv_len(tm.pat, co.id);
	  if (co.kind != OP_OTHER && co.kind != OP_END) { d_err = 1; break; }      /* leaf tasks only */
	  GROW(s->iv, s->capiv, s->niv + 1);
	  s->iv[s->niv++] = (iv_t){ C, co.id, co.kind, x, csl, 100 + co.id, c0, cf };
	  if (co.kind == OP_OTHER) { d_emit(C_ENTER_OTHER, x, C, 100 + co.id, -1, cf); c0 = cf + tm.gap; csl = 1000 + serial++; d_emit(C_RET_OTHER, x, C, csl, -1, c0); }
	  else { d_emit(C_END_TASK, x, C, 100 + co.id, -1, cf); tfree[x] = cf; if (cf >= tlast) { tlast = cf; xlast = x; } }
	}
      }
      npend = 0;
      cw = xlast; t0 = tlast + tm.gap; sline = 1000 + serial++; d_emit(C_RET_WAIT, cw, 0, sline, -1, t0);
      break;
    }
    case OP_END: d_emit(C_STOP, cw, 0, 100 + op.id, -1, tf); s->t_end = tf; break;
    default: d_err = 1;
    }
  }
  if (s->niv != p->niv || npend) d_err = 1;
  return !d_err;
}

/* ------------------------------------------------------------------ the oracle: from the program text and the
 * simulator's interval list only.
 * Assumed semantics (checked against the UNCONTRACTED run and against dr_pi_dag_enum_edges / gen_stat.c):
 *   - every interval is a node; work = sum of (end - start) over intervals (the gaps inside the runtime between an
 *     `enter' and the matching `return' are not work);
 *   - inside a task consecutive intervals are joined by one edge whose kind is that of the call that ended the
 *     earlier one: create -> create_cont, other -> other_cont, wait -> wait_cont (one per section, leaving it);
 *   - a create interval has a `create' edge to the first interval of the created task;
 *   - the last interval of a created task has an `end' edge to the interval that follows the wait of the section in
 *     which it was created (nested sections join at their own wait);
 *   - critical path = heaviest path in that DAG, nodes weighted with their lengths;
 *   - node counts: one create_task per create, one wait_tasks per section, one other per other, one end_task per
 *     task including the root (ended by dr_stop). */
enum { EK_END, EK_CREATE, EK_CREATE_CONT, EK_WAIT_CONT, EK_OTHER_CONT, EK_MAX };
static const char * const EKN[EK_MAX] = { "end", "create", "create_cont", "wait_cont", "other_cont" };
typedef struct { long work, crit, elapsed; long nodes[4]; /* create wait other end */ long edges[EK_MAX]; long nsections, ntasks; } oracle_t;
static int oracle_compute(const prog_t * p, const sched_t * s, oracle_t * o) {
  static long * len, * dist; static int * seen, * npred, * pstart, * ea, * eb, * pred; static long c1, c2, c3, c4, c5, c6, c7, c8;
  long n = p->niv, ne = 0;
  GROW(len, c1, n + 1); GROW(dist, c2, n + 1); GROW(seen, c3, n + 1); GROW(npred, c4, n + 1); GROW(pstart, c5, n + 2);
  memset(seen, 0, sizeof(int) * (n + 1)); memset(npred, 0, sizeof(int) * (n + 1));
  memset(o, 0, sizeof *o);
  for (int i = 0; i < s->niv; i++) {
    const iv_t * v = &s->iv[i];
    if (v->opid < 0 || v->opid >= p->niv || seen[v->opid] || v->t1 < v->t0 || p->iv_kind[v->opid] != v->kind) return 0;
    seen[v->opid] = 1; len[v->opid] = v->t1 - v->t0; o->work += len[v->opid];
    switch (v->kind) { case OP_CREATE: o->nodes[0]++; break; case OP_WAIT: o->nodes[1]++; break; case OP_OTHER: o->nodes[2]++; break; case OP_END: o->nodes[3]++; break; default: return 0; }
  }
  for (int i = 0; i < p->niv; i++) if (!seen[i]) return 0;
#define ADD_EDGE(k, a, b) do { if ((a) >= (b)) return 0; GROW(ea, c6, ne + 1); GROW(eb, c7, ne + 1); ea[ne] = (a); eb[ne] = (b); ne++; npred[b]++; o->edges[k]++; } while (0)
  for (int ti = 0; ti < p->ntasks; ti++) {
    const ptask_t * pt = &p->t[ti];
    int prev = -1, prevk = -1;
    for (int i = 0; i < pt->nops; i++) {
      const op_t * op = &pt->ops[i];
      if (op->kind == OP_BEGIN) continue;
      if (prev >= 0) ADD_EDGE(prevk == OP_CREATE ? EK_CREATE_CONT : prevk == OP_OTHER ? EK_OTHER_CONT : EK_WAIT_CONT, prev, op->id);
      prev = op->id; prevk = op->kind;
      if (op->kind == OP_CREATE) {
	const ptask_t * ct = &p->t[op->child];
	int first = -1, last = ct->ops[ct->nops - 1].id, join = -1;
	for (int j = 0; j < ct->nops; j++) if (ct->ops[j].kind != OP_BEGIN) { first = ct->ops[j].id; break; }
	for (int j = i + 1; j < pt->nops; j++) if (pt->ops[j].kind == OP_WAIT && pt->ops[j].sec == op->sec) {
	    for (int k = j + 1; k < pt->nops; k++) if (pt->ops[k].kind != OP_BEGIN) { join = pt->ops[k].id; break; }
	    break;
	  }
	if (first < 0 || join < 0) return 0;
	ADD_EDGE(EK_CREATE, op->id, first);
	ADD_EDGE(EK_END, last, join);
      }
    }
  }
#undef ADD_EDGE
  GROW(pred, c8, ne + 1);
  pstart[0] = 0; for (long i = 0; i < n; i++) { pstart[i + 1] = pstart[i] + npred[i]; npred[i] = 0; }
  for (long e = 0; e < ne; e++) pred[pstart[eb[e]] + npred[eb[e]]++] = ea[e];
  for (long i = 0; i < n; i++) {                  /* interval ids are a topological order (serial elision) */
    long m = 0; for (int j = pstart[i]; j < pstart[i + 1]; j++) if (dist[pred[j]] > m) m = dist[pred[j]];
    dist[i] = m + len[i]; if (dist[i] > o->crit) o->crit = dist[i];
  }
  o->elapsed = s->t_end - T0; o->nsections = p->nsecs; o->ntasks = p->ntasks;
  /* sanity of the simulated execution itself: no worker runs two intervals at once */
  if (s->niv > 4000) return 0;                    /* the pairwise test below is quadratic */
  for (int i = 0; i < s->niv; i++) for (int j = i + 1; j < s->niv; j++) if (s->iv[i].worker == s->iv[j].worker) {
	const iv_t * a = &s->iv[i], * b = &s->iv[j];
	if (a->t0 < b->t1 && b->t0 < a->t1) return 0;
      }
  if (o->crit > o->work || o->elapsed < o->crit) return 0;
  return 1;
}

/* ------------------------------------------------------------------ options */
#define CM_INF (1ULL << 60)
typedef struct { unsigned long long cmax, umin; long cc, nct, pt; } ropt_t;
static ropt_t OPTS[96]; static int NOPTS;
static void opt_str(const ropt_t * o, char * b, size_t n) {
  char cm[24]; if (o->cmax == CM_INF) strcpy(cm, "2^60"); else snprintf(cm, sizeof cm, "%llu", o->cmax);
  snprintf(b, n, "cm%s,um%llu,cc%ld,nt%ld,pt%ld", cm, o->umin, o->cc, o->nct, o->pt);
}
static int opt_parse(const char * s, ropt_t * o) {
  char cm[24]; memset(o, 0, sizeof *o);
  if (sscanf(s, "cm%23[^,],um%llu,cc%ld,nt%ld,pt%ld", cm, &o->umin, &o->cc, &o->nct, &o->pt) != 5) return 0;
  o->cmax = !strcmp(cm, "2^60") ? CM_INF : strtoull(cm, 0, 10); return 1;
}
/* option 0 is always "no contraction at all".  quick: the 12 settings that select distinct code paths of
   dr_summarize_section_or_task (a node-count target overrides the count bound, which overrides the span bounds);
   thorough: the whole 3 x 2 x 3 x (1 + 2 x 2) grid */
static void make_opts(int thorough) {
  static const unsigned long long CM[3] = { 0, 5, CM_INF }, UM[2] = { 0, 5 };
  static const long CC[3] = { 0, 3, 100 };
  NOPTS = 0;
  if (!thorough) {
    for (int a = 0; a < 3; a++) for (int b = 0; b < 2; b++) OPTS[NOPTS++] = (ropt_t){ CM[a], UM[b], 0, 0, 100000 };
    OPTS[NOPTS++] = (ropt_t){ CM_INF, 0, 3, 0, 100000 }; OPTS[NOPTS++] = (ropt_t){ CM_INF, 0, 100, 0, 100000 };
    for (int n = 0; n < 2; n++) for (int t = 0; t < 2; t++) OPTS[NOPTS++] = (ropt_t){ CM_INF, 0, 0, n ? 10 : 3, t ? 100000 : 0 };
  } else {
    for (int a = 0; a < 3; a++) for (int b = 0; b < 2; b++) for (int c = 0; c < 3; c++) {
	  OPTS[NOPTS++] = (ropt_t){ CM[a], UM[b], CC[c], 0, 100000 };
	  for (int n = 0; n < 2; n++) for (int t = 0; t < 2; t++) OPTS[NOPTS++] = (ropt_t){ CM[a], UM[b], CC[c], n ? 10 : 3, t ? 100000 : 0 };
	}
  }
}

/* ------------------------------------------------------------------ the current case and the replay */
static const char * const FILEN[4] = { "alpha.c", "beta.cc", "gamma.h", "delta.cilk" };
typedef struct {
  const prog_t * p; const sched_t * s; const oracle_t * o;
  timing_t tm; int tmi, imp, W, oi, nf, chk;
  ropt_t opt;
  char key[220];               /* P=.. T=.. B=.. W=.. S=.. O=.. F=..  (readable, and parsed back by --case) */
  int verbose;
} case_t;
static case_t CASE;
static int WANT_STAT, WANT_DAG;   /* which files dr_dump() is to write (set by the component) */
static char SCRATCH[200];      /* file prefix handed to the recorder: build/<comp>/scratch/w<k> */

/* hook stream: what the recorder tells the user about every interval */
typedef struct { int hook, kind, worker; long t0, t1, eline; } hk_t;
static hk_t * HK; static long HKCAP; static int NHK;
static long HKN[9];
#define HOOKFN(name, idx, isiv) static int hook_##name(dr_dag_node * n) { HKN[idx]++; \
    if (isiv && NHK < HKCAP) HK[NHK++] = (hk_t){ idx, n->info.kind, n->info.worker, (long)n->info.start.t, (long)n->info.end.t, n->info.end.pos.line }; return 0; }
HOOKFN(start_task, 0, 0) HOOKFN(begin_section, 1, 0) HOOKFN(enter_create_task, 2, 1) HOOKFN(return_from_create_task, 3, 0)
HOOKFN(enter_wait_tasks, 4, 1) HOOKFN(return_from_wait_tasks, 5, 0) HOOKFN(enter_other, 6, 1) HOOKFN(return_from_other, 7, 0) HOOKFN(end_task, 8, 1)

static long N_CALLS;
static void replay_script(void) {
  const sched_t * s = CASE.s;
  static dr_dag_node ** tnode, ** cnode; static long tcap, ccap; int nt = CASE.p->ntasks;
  GROW(tnode, tcap, nt); GROW(cnode, ccap, nt); memset(tnode, 0, sizeof(void *) * nt); memset(cnode, 0, sizeof(void *) * nt);
  GROW(HK, HKCAP, s->niv + 8);
  dr_options opts[1];
  *opts = dr_options_default_values;              /* not dr_options_default(): the environment must not leak in */
  opts->dag_file_prefix = SCRATCH;
  opts->dag_file_yes = WANT_DAG; opts->stat_file_yes = WANT_STAT; opts->gpl_file_yes = 0; opts->dot_file_yes = 0; opts->text_file_yes = 0;
  opts->uncollapse_min = CASE.opt.umin; opts->collapse_max = CASE.opt.cmax; opts->collapse_max_count = CASE.opt.cc;
  opts->node_count_target = CASE.opt.nct; opts->prune_threshold = CASE.opt.pt;
  opts->alloc_unit_mb = 0;                        /* smallest node pages: a case needs a few dozen nodes, not megabytes */
  opts->worker_specific_state_array = 1;
  opts->chk_level = CASE.chk;
  opts->hooks = (dr_hooks){ hook_start_task, hook_begin_section, hook_enter_create_task, hook_return_from_create_task,
			    hook_enter_wait_tasks, hook_return_from_wait_tasks, hook_enter_other, hook_return_from_other, hook_end_task };
  NHK = 0; memset(HKN, 0, sizeof HKN);
  cur_nworkers = s->W;
  for (int i = 0; i < s->nsc; i++) {
    const sc_t * c = &s->sc[i];
    const char * file = FILEN[c->line % CASE.nf];
    vclock = c->t; cur_worker = c->worker; N_CALLS++;
    if (CASE.verbose) printf("  t=%-4ld w%d  T%d  %s  (%s:%d)\n", c->t, c->worker, c->task, CALLN[c->call], file, c->line);
    switch (c->call) {
    case C_START:        dr_start__(opts, file, c->line, dr_get_worker(), dr_get_max_workers()); break;
    case C_BEGIN:        dr_begin_section(); break;
    case C_ENTER_CREATE: tnode[c->task] = dr_enter_create_task_(&cnode[c->child], file, c->line); break;
    case C_START_TASK:   dr_start_task_(cnode[c->task], file, c->line); break;
    case C_RET_CREATE:   dr_return_from_create_task_(tnode[c->task], file, c->line); break;
    case C_ENTER_WAIT:   tnode[c->task] = dr_enter_wait_tasks_(file, c->line); break;
    case C_RET_WAIT:     dr_return_from_wait_tasks_(tnode[c->task], file, c->line); break;
    case C_ENTER_OTHER:  tnode[c->task] = dr_enter_other_(file, c->line); break;
    case C_RET_OTHER:    dr_return_from_other_(tnode[c->task], file, c->line); break;
    case C_END_TASK:     dr_end_task_(file, c->line); break;
    case C_STOP:         dr_stop__(file, c->line, dr_get_worker()); break;
    }
  }
}
/* forget the recorder's state completely.  After a trapped abort the graph may be half-built: it is not walked,
   but the memory the recorder owns (node pages, prune stacks, the per-worker array) is given back so that millions
   of trapped cases do not exhaust memory. */
static void recorder_reset(int orderly) {
  if (orderly && GS.initialized) { cur_worker = 0; dr_cleanup__("cleanup.c", 1, 0, cur_nworkers); }
  else if (GS.worker_specific_state_array) {
    for (int i = 0; i < GS.worker_specific_state_array_sz; i++) {
      dr_worker_specific_state * w = &GS.worker_specific_state_array[i];
      for (dr_dag_node_page * pg = w->freelist->pages, * nx; pg; pg = nx) { nx = pg->next; free(pg); }
      free(w->prune_stack->entries);
    }
    free(GS.worker_specific_state_array);
  }
  if (GS.worker_specific_state_key_valid) pthread_key_delete(GS.worker_specific_state_key);
  if (GS.worker_id_key_valid) pthread_key_delete(GS.worker_id_key);
  memset(&GS, 0, sizeof GS);
}

/* a hash of everything a dumped DAG consists of (used to recognise option settings that leave identical graphs) */
static unsigned long long fnv(unsigned long long h, const void * p, size_t n) {
  const unsigned char * b = p; size_t i = 0;
  for (; i + 8 <= n; i += 8) { unsigned long long w; memcpy(&w, b + i, 8); h = (h ^ w) * 1099511628211ULL; h ^= h >> 29; }
  for (; i < n; i++) { h ^= b[i]; h *= 1099511628211ULL; }
  return h;
}
static unsigned long long pi_hash(const dr_pi_dag * G) {
  unsigned long long h = 1469598103934665603ULL;
  h = fnv(h, &G->n, sizeof G->n); h = fnv(h, &G->m, sizeof G->m); h = fnv(h, &G->num_workers, sizeof G->num_workers);
  h = fnv(h, G->T, sizeof(dr_pi_dag_node) * G->n); h = fnv(h, G->E, sizeof(dr_pi_dag_edge) * G->m);
  h = fnv(h, &G->S->n, sizeof G->S->n); h = fnv(h, G->S->I, sizeof(long) * G->S->n); h = fnv(h, G->S->C, G->S->sz - sizeof(dr_pi_string_table) - sizeof(long) * G->S->n);
  return h;
}

/* ------------------------------------------------------------------ findings, classes, shared slots */
typedef struct { char key[200], msg[400], args[260]; long rank; } fnd_t;
#define NBEST 2
typedef struct { char cls[100]; long count; int n; fnd_t best[NBEST]; } cls_t;
#define MAXCLS 64
typedef struct {
  int p, tmi, imp, W, nch, ch[MAXCH], nf, oi, chk;      /* position of the case in progress */
  int have_base; long base[40];
} pos_t;
typedef struct {
  long states, transitions, evaluations, schedules, traps, groups;
  int ncls, cls_overflow; cls_t cls[MAXCLS];
  int in_case, done, engine_error; char cur_key[220]; pos_t pos;
  char sample[3][220]; int nsample;
  long large; char large_sample[220];
  long aux[8];
} slot_t;
static slot_t * SLOT;           /* this worker's slot (shared with the pool parent) */
/* smaller = simpler reproducer.  The option settings are ranked by their place in the quick list (a subset of the
   thorough grid), so that both tiers name the same minimal case. */
static int opt_rank(const ropt_t * o) {
  static ropt_t q[16]; static int nq = -1;
  if (nq < 0) { ropt_t save[96]; int n = NOPTS; memcpy(save, OPTS, sizeof save); make_opts(0); nq = NOPTS; memcpy(q, OPTS, sizeof(ropt_t) * nq); memcpy(OPTS, save, sizeof save); NOPTS = n; }
  for (int i = 0; i < nq; i++) if (!memcmp(&q[i], o, sizeof *o)) return i;
  return 20 + CASE.oi % 70;
}
static long case_rank(void) {
  return (long)strlen(CASE.p->str) * 100000000L + CASE.W * 10000000L + CASE.s->nsteal * 1000000L + opt_rank(&CASE.opt) * 10000L
    + (CASE.tm.pat * 2 + (1 - CASE.tm.gap)) * 100L + CASE.imp * 10 + CASE.nf;
}
/* cls: the stable class of the disagreement (key prefix, ends with the counter / site it is about) */
static void found(const char * cls, const char * extra, const char * fmt, ...) {
  char msg[400]; va_list ap; va_start(ap, fmt); vsnprintf(msg, sizeof msg, fmt, ap); va_end(ap);
  if (CASE.verbose) printf("FOUND %s %s%s: %s\n", cls, CASE.key, extra ? extra : "", msg);
  slot_t * sl = SLOT; int i;
  for (i = 0; i < sl->ncls; i++) if (!strcmp(sl->cls[i].cls, cls)) break;
  if (i == sl->ncls) { if (sl->ncls == MAXCLS) { sl->cls_overflow++; return; } sl->ncls++; memset(&sl->cls[i], 0, sizeof sl->cls[i]); snprintf(sl->cls[i].cls, sizeof sl->cls[i].cls, "%s", cls); }
  cls_t * c = &sl->cls[i]; c->count++;
  long rank = case_rank(); int at = -1;
  if (c->n < NBEST) at = c->n++; else { int w = 0; for (int j = 1; j < NBEST; j++) if (c->best[j].rank > c->best[w].rank) w = j; if (c->best[w].rank > rank) at = w; }
  if (at < 0) return;
  fnd_t * f = &c->best[at]; f->rank = rank;
  snprintf(f->key, sizeof f->key, "%s %s%s", cls, CASE.key, extra ? extra : "");
  snprintf(f->msg, sizeof f->msg, "%s", msg);
  snprintf(f->args, sizeof f->args, "--case '%s'", CASE.key);
}
/* what the recorder wrote to stderr / stdout during the case (both go to the worker's log file) */
static int LOGFD = -1; static off_t LOGOFF;
static void log_reset(void) {
  if (LOGFD < 0) return;
  fflush(NULL); LOGOFF = lseek(LOGFD, 0, SEEK_END);
  if (LOGOFF > (1 << 20)) { if (ftruncate(LOGFD, 0)) {} LOGOFF = 0; }
}
/* what was written since log_reset (newlines become blanks; the END of it when it does not fit); 0 when nothing */
static int log_read(char * b, size_t n) {
  b[0] = 0; if (LOGFD < 0) return 0;
  fflush(NULL);
  off_t end = lseek(LOGFD, 0, SEEK_END);
  if (end <= LOGOFF) return 0;
  off_t from = end - LOGOFF > (off_t)(n - 1) ? end - (off_t)(n - 1) : LOGOFF;
  ssize_t r = pread(LOGFD, b, n - 1, from); if (r < 0) r = 0; b[r] = 0;
  while (r > 0 && b[r - 1] == '\n') b[--r] = 0;
  for (ssize_t i = 0; i < r; i++) if (b[i] == '\n') b[i] = ' ';
  return (int)r;
}

static void component_case(void);                 /* supplied by the component */
static int component_skip(int nf, int oi);        /* supplied: 1 = this (file-name count, option index) is not part of the enumeration */
static const char * const AUX_NAMES[4];           /* supplied: what SLOT->aux[0..3] count (NULL = unused) */
static const char * COMPONENT, * PROPERTY;

static void case_key(void) {
  char ob[80], sb[120]; int o = 0; const sched_t * s = CASE.s;
  opt_str(&CASE.opt, ob, sizeof ob);
  sb[0] = 0; for (int i = 0; i < s->nch; i++) o += snprintf(sb + o, sizeof sb - o, "%s%d", i ? "." : "", s->ch[i]);
  if (!s->nch) strcpy(sb, "-");
  snprintf(CASE.key, sizeof CASE.key, "P=%s T=%d/%d B=%c W=%d S=%s(%s) O=%s F=%d", CASE.p->name[0] ? CASE.p->name : "(root-only)", CASE.tm.pat, CASE.tm.gap, CASE.imp ? 'i' : 'e',
	   CASE.W, sb, s->steals[0] ? s->steals : "no-steal", ob, CASE.nf);
}
/* one case: replay under the trap, let the component judge, clean up.  A failed internal check of the recorder
   (they are only compiled to act at chk_level >= 1) is a finding; the case is then repeated with the checks off,
   as a production run would have them, so that the totals are still judged. */
static void run_case(void) {
  case_key();
  if (SLOT) { memcpy(SLOT->cur_key, CASE.key, sizeof SLOT->cur_key); SLOT->in_case = 1; }
  for (CASE.chk = 1; CASE.chk >= 0; CASE.chk--) {
    if (SLOT) SLOT->pos.chk = CASE.chk;
    log_reset();
    int how = setjmp(trap_env);
    if (how == 0) {
      trap_armed = 1;
      replay_script();
      component_case();
      recorder_reset(1);
      trap_armed = 0;
      break;
    }
    /* trapped */
    char lg[300]; log_read(lg, sizeof lg);
    if (SLOT) SLOT->traps++;
    char cls[100]; const char * site = trap_msg;
    if (how == 2) {            /* exit(): dr_check_ printed  file:line:func: dag recorder check failed : cond */
      char * q = strstr(lg, "dag recorder check failed");
      if (q) {
	char pre[200]; snprintf(pre, sizeof pre, "%.*s", (int)(q - lg), lg);
	for (char * z = pre + strlen(pre) - 1; z >= pre && (*z == ' ' || *z == ':'); z--) *z = 0;
	char * fn = strrchr(pre, ':'); fn = fn ? fn + 1 : pre;
	char * cond = q + strlen("dag recorder check failed : ");
	for (char * z = cond + strlen(cond) - 1; z >= cond && *z == ' '; z--) *z = 0;
	snprintf(cls, sizeof cls, "abort:dr_check:%s:%s", fn, cond);
      } else snprintf(cls, sizeof cls, "abort:exit");
      site = lg;
    } else snprintf(cls, sizeof cls, "%s", trap_cls);
    for (char * z = cls; *z; z++) if (*z == ' ') *z = '_';
    found(cls, CASE.chk ? " chk_level=1" : " chk_level=0", "the recorder aborts on a valid execution: %s%s", site, how == 2 && CASE.chk ? " (internal check, chk_level=1)" : "");
    recorder_reset(0);
    if (how != 2) break;       /* an assert is not governed by chk_level */
  }
  if (SLOT) { SLOT->in_case = 0; SLOT->states++; SLOT->evaluations++; }
}

/* ------------------------------------------------------------------ enumeration of one program (resumable) */
static timing_t TIMINGS[16]; static int NTIMINGS;
static int TIER, MAXW, MAXSTEAL, NFMAX;
static int VERBOSE_CASE;
/* the per-(program, timing, W, schedule) values of option 0, kept for the cross-grid comparison */
static long BASE[40]; static int HAVE_BASE;

/* ------------------------------------------------------------------ large executions: a fixed, hand-shaped family
 * next to the exhaustive enumeration (NOT enumerated: one schedule each), judged by the same oracles under the same
 * option / conversion grids.  They reach what 4 tasks cannot: hundreds of nodes ready at once, deep and long graphs.
 *   wide-hf:N  one section with N creates issued back to back by worker 0 (help-first), the N leaf tasks (every second
 *              one with an `other') started afterwards round-robin on workers 1..W-1, then the wait       key S=-(help-first)
 *   wide-wf:N  the same program in work-first order, the parent's continuation (or any deque entry) taken by an idle
 *              worker whenever one is idle: a steal at practically every create
 *   deep:N     a chain of N nested creates, each task = [other,] section { create next; wait }, same steal policy
 *   long:N     one task with N sections in sequence, each { create a leaf task; wait }, an `other' between sections,
 *              same steal policy (W = 1: serial)
 * Index 0..NLARGE-1 of the work counter are these (largest work first), the enumerated programs follow. */
enum { LK_WIDE_HF, LK_WIDE_WF, LK_DEEP, LK_LONG, LK_N };
static const char * const LKN[LK_N] = { "wide-hf", "wide-wf", "deep", "long" };
typedef struct { int kind, size, W; } large_t;
static large_t LARGE[64]; static int NLARGE;
static void make_large(int thorough) {
  static const int WIDTH[5] = { 1000, 300, 150, 101, 40 }, DEPTH[2] = { 200, 50 }, LEN[2] = { 400, 120 };
  NLARGE = 0;
  for (int i = thorough ? 0 : 1; i < 5; i++) for (int W = 3; W >= 2; W--) { LARGE[NLARGE++] = (large_t){ LK_WIDE_HF, WIDTH[i], W }; LARGE[NLARGE++] = (large_t){ LK_WIDE_WF, WIDTH[i], W }; }
  for (int i = 0; i < 2; i++) for (int W = 3; W >= 2; W--) LARGE[NLARGE++] = (large_t){ LK_DEEP, DEPTH[i], W };
  for (int i = 0; i < 2; i++) for (int W = 2; W >= 1; W--) LARGE[NLARGE++] = (large_t){ LK_LONG, LEN[i], W };
}
static const char * large_text(int kind, int size) {
  static char * b; static long cap; long n = 0;
  GROW(b, cap, 8L * size + 16);
  switch (kind) {
  case LK_WIDE_HF: case LK_WIDE_WF:
    b[n++] = '['; for (int j = 0; j < size; j++) n += sprintf(b + n, j % 2 ? "c{o}" : "c{}"); b[n++] = ']'; break;
  case LK_DEEP:
    for (int j = 0; j < size; j++) n += sprintf(b + n, j % 3 == 1 ? "o[c{" : "[c{");
    for (int j = 0; j < size; j++) n += sprintf(b + n, "}]");
    break;
  case LK_LONG:
    for (int j = 0; j < size; j++) n += sprintf(b + n, "%s[%s]", j ? "o" : "", j % 2 ? "c{o}" : "c{}");
    break;
  }
  b[n] = 0; return b;
}
static int large_parse(prog_t * p, int kind, int size, int W) {
  if (!prog_parse(p, large_text(kind, size))) return 0;
  p->large = 1; p->lkind = kind; p->lsize = size; p->lW = W; snprintf(p->name, sizeof p->name, "%s:%d", LKN[kind], size);
  return 1;
}
static int large_sim(const prog_t * p, timing_t tm, int imp, sched_t * s) {
  if (p->lkind == LK_WIDE_HF) return sim_helpfirst(p, tm, p->lW, imp, s);
  DPOLICY = 1; int ok = sim_run(p, tm, p->lW, imp, 1 << 30, s, 0); DPOLICY = 0;
  if (s->nsteal) snprintf(s->steals, sizeof s->steals, "steal-whenever-idle:%d", s->nsteal); else s->steals[0] = 0;
  return ok;
}
/* "wide-hf:150" -> kind, size */
static int large_name(const char * name, int * kind, int * size) {
  for (int k = 0; k < LK_N; k++) { size_t l = strlen(LKN[k]); if (!strncmp(name, LKN[k], l) && name[l] == ':') { *kind = k; *size = atoi(name + l + 1); return *size > 0 && *size <= 5000; } }
  return 0;
}

static void enumerate_program(int pi, const pos_t * rs) {
  static prog_t p; static sched_t s; static oracle_t o;
  int large = pi < NLARGE, Wlo = 1, Whi = MAXW;
  if (large) { if (!large_parse(&p, LARGE[pi].kind, LARGE[pi].size, LARGE[pi].W)) { SLOT->engine_error = 1; return; } Wlo = Whi = LARGE[pi].W; }
  else if (!prog_parse(&p, PROGS[pi - NLARGE])) { SLOT->engine_error = 1; return; }
  int resuming = rs != NULL;
  for (int tmi = resuming ? rs->tmi : 0; tmi < NTIMINGS; tmi++)
    for (int imp = resuming ? rs->imp : 0; imp < (p.nimplicit && tmi == 0 ? 2 : 1); imp++)    /* implicit opening: with the first timing only */
      for (int W = resuming ? rs->W : Wlo; W <= Whi; W++) {
	int preflen = 0;
	if (resuming) { memcpy(s.ch, rs->ch, sizeof s.ch); preflen = rs->nch; }
	for (;;) {
	  if (!(large ? large_sim(&p, TIMINGS[tmi], imp, &s) : sim_run(&p, TIMINGS[tmi], W, imp, MAXSTEAL, &s, preflen)) || !oracle_compute(&p, &s, &o)) {
	    SLOT->engine_error = 1; fprintf(stderr, "engine error: P=%s W=%d\n", p.name, W); return;
	  }
	  int ran = 0;
	  CASE.p = &p; CASE.s = &s; CASE.o = &o; CASE.tm = TIMINGS[tmi]; CASE.tmi = tmi; CASE.imp = imp; CASE.W = W;
	  SLOT->pos.p = pi; SLOT->pos.tmi = tmi; SLOT->pos.imp = imp; SLOT->pos.W = W; SLOT->pos.nch = s.nch; memcpy(SLOT->pos.ch, s.ch, sizeof s.ch);
	  int nf0 = resuming ? rs->nf : 1, oi0 = resuming ? rs->oi + 1 : 0;
	  if (resuming && rs->have_base) { HAVE_BASE = 1; memcpy(BASE, rs->base, sizeof BASE); } else HAVE_BASE = 0;
	  resuming = 0;
	  static int count_only = -1; if (count_only < 0) count_only = getenv("DAG_COUNT_ONLY") != NULL;     /* development aid */
	  for (int nf = nf0; nf <= NFMAX && !count_only; nf++, oi0 = 0) {
	    if (oi0 == 0) HAVE_BASE = 0;
	    for (int oi = oi0; oi < NOPTS; oi++) {
	      if (component_skip(nf, oi)) continue;
	      ran = 1;
	      CASE.nf = nf; CASE.oi = oi; CASE.opt = OPTS[oi];
	      SLOT->pos.nf = nf; SLOT->pos.oi = oi;
	      long c0 = N_CALLS;
	      run_case();
	      SLOT->transitions += N_CALLS - c0;
	      SLOT->pos.have_base = HAVE_BASE; if (HAVE_BASE) memcpy(SLOT->pos.base, BASE, sizeof BASE);
	      if (large) { SLOT->large++; if (!SLOT->large_sample[0] && p.lkind == LK_WIDE_HF && p.lsize > 100) snprintf(SLOT->large_sample, 220, "%s", CASE.key); }
	      else if (SLOT->nsample < 3 && (SLOT->states % 9973) == 77) snprintf(SLOT->sample[SLOT->nsample++], 220, "%s", CASE.key);
	    }
	  }
	  resuming = 0;
	  SLOT->groups++; if (!large) SLOT->schedules += ran || count_only;
	  if (large || !sched_next(&s, &preflen)) break;
	}
      }
}

/* ------------------------------------------------------------------ the pool */
static slot_t * SLOTS; static volatile long * NEXT_PROG; static int NPROC;
static void worker_main(int k, const pos_t * rs) {
  char lf[260]; snprintf(lf, sizeof lf, "build/%s/scratch/w%d.log", COMPONENT, k);
  LOGFD = open(lf, O_RDWR | O_CREAT | O_TRUNC | O_APPEND, 0644);
  if (LOGFD >= 0) { fflush(NULL); dup2(LOGFD, 1); dup2(LOGFD, 2); }
  snprintf(SCRATCH, sizeof SCRATCH, "build/%s/scratch/w%d", COMPONENT, k); mkdir(SCRATCH, 0755);   /* a directory per worker: no contention on one directory lock */
  snprintf(SCRATCH, sizeof SCRATCH, "build/%s/scratch/w%d/dr", COMPONENT, k);
  SLOT = &SLOTS[k];
  if (rs) enumerate_program(rs->p, rs);
  for (;;) {
    long pi = __sync_fetch_and_add(NEXT_PROG, 1);
    if (pi >= NLARGE + NPROGS) break;
    enumerate_program((int)pi, NULL);
    if (SLOT->engine_error) break;
  }
  SLOT->done = 1;
  fflush(NULL); _exit(0);
}

static int fnd_cmp(const void * a, const void * b) {
  const fnd_t * x = *(const fnd_t * const *)a, * y = *(const fnd_t * const *)b;
  int c = strcmp(x->key, y->key); (void)c;
  return x->rank < y->rank ? -1 : x->rank > y->rank ? 1 : strcmp(x->key, y->key);
}

/* parse a key back into a case and run it verbosely in this process */
static int replay_one(const char * key) {
  static prog_t p; static sched_t s; static oracle_t o;
  char ps[64], sb[120], ob[100]; int pat, gap, W, nf; char b;
  if (sscanf(key, "P=%63s T=%d/%d B=%c W=%d S=%119s O=%99s F=%d", ps, &pat, &gap, &b, &W, sb, ob, &nf) != 8) { fprintf(stderr, "cannot parse case: %s\n", key); return 2; }
  if (!strncmp(ps, "(root-only)", 11)) ps[0] = 0;
  int lk, lsz, large = large_name(ps, &lk, &lsz);
  if (!(large ? large_parse(&p, lk, lsz, W) : prog_parse(&p, ps))) { fprintf(stderr, "bad program %s\n", ps); return 2; }
  int preflen = 0; char * q = sb;
  if (*q != '-') while (*q && *q != '(' && preflen < MAXCH) { s.ch[preflen++] = (int)strtol(q, &q, 10); if (*q == '.') q++; }
  timing_t tm = { pat, gap };
  if (!(large ? large_sim(&p, tm, b == 'i', &s) : sim_run(&p, tm, W, b == 'i', 99, &s, preflen)) || !oracle_compute(&p, &s, &o)) { fprintf(stderr, "engine error\n"); return 2; }
  static slot_t sl; SLOT = &sl;
  CASE.p = &p; CASE.s = &s; CASE.o = &o; CASE.tm = tm; CASE.imp = b == 'i'; CASE.W = W; CASE.nf = nf; CASE.oi = 1; CASE.verbose = 1;
  if (!opt_parse(ob, &CASE.opt)) { fprintf(stderr, "bad options %s\n", ob); return 2; }
  CASE.oi = (CASE.opt.cmax == 0 && CASE.opt.umin == 0 && CASE.opt.cc == 0 && CASE.opt.nct == 0) ? 0 : 1;
  snprintf(SCRATCH, sizeof SCRATCH, "build/%s/scratch/replay", COMPONENT);
  { char lf[260]; snprintf(lf, sizeof lf, "%s.log", SCRATCH);        /* the recorder's stderr: needed to name a failed check */
    LOGFD = open(lf, O_RDWR | O_CREAT | O_TRUNC | O_APPEND, 0644); if (LOGFD >= 0) { fflush(NULL); dup2(LOGFD, 2); } }
  printf("oracle: work=%ld critical_path=%ld elapsed=%ld create=%ld wait=%ld other=%ld end=%ld  edges end=%ld create=%ld create_cont=%ld wait_cont=%ld other_cont=%ld\n",
	 o.work, o.crit, o.elapsed, o.nodes[0], o.nodes[1], o.nodes[2], o.nodes[3], o.edges[0], o.edges[1], o.edges[2], o.edges[3], o.edges[4]);
  HAVE_BASE = 0;
  if (CASE.oi) {              /* the comparison base: the same execution recorded with no contraction */
    case_t save = CASE; CASE.opt = (ropt_t){ 0, 0, 0, 0, 100000 }; CASE.oi = 0; CASE.verbose = 0; run_case(); CASE = save;
  }
  run_case();
  { char b[2000]; LOGOFF = 0; if (log_read(b, sizeof b)) printf("recorder's stderr: %s\n", b); }
  printf("%d class(es) of disagreement (including those of the uncontracted base run)\n", sl.ncls);
  for (int i = 0; i < sl.ncls; i++) printf("  %s x%ld   e.g. %s : %s\n", sl.cls[i].cls, sl.cls[i].count, sl.cls[i].best[0].key, sl.cls[i].best[0].msg);
  return sl.ncls ? 1 : 0;
}

static void mkdirs(const char * comp) {
  char b[200]; mkdir("build", 0755); snprintf(b, sizeof b, "build/%s", comp); mkdir(b, 0755);
  snprintf(b, sizeof b, "build/%s/scratch", comp); mkdir(b, 0755); mkdir("replays", 0755);
}

/* tier bounds: see DAG_NOTES.md */
static void set_tier(int thorough, int nfmax_quick, int nfmax_thorough) {
  TIER = thorough; NTIMINGS = 0;
  if (!thorough) {
    MAXW = 2; MAXSTEAL = 2; NFMAX = nfmax_quick;
    TIMINGS[NTIMINGS++] = (timing_t){ 0, 1 }; TIMINGS[NTIMINGS++] = (timing_t){ 1, 0 };
    gen_programs(3, 3, 3);
  } else {
    MAXW = 3; MAXSTEAL = 2; NFMAX = nfmax_thorough;
    TIMINGS[NTIMINGS++] = (timing_t){ 0, 1 }; TIMINGS[NTIMINGS++] = (timing_t){ 1, 0 }; TIMINGS[NTIMINGS++] = (timing_t){ 4, 1 };
    gen_programs(4, 3, 3);
  }
  make_opts(thorough);
  make_large(thorough);
}

static int dag_main(int argc, char ** argv, const char * property, const char * component, const char * engine, int nfq, int nft, const char * what) {
  const char * stats = NULL, * one = NULL; int thorough = 0, nproc = 0;
  for (int i = 1; i < argc; i++) {
    if (!strcmp(argv[i], "--stats") && i + 1 < argc) stats = argv[++i];
    else if (!strcmp(argv[i], "--tier") && i + 1 < argc) thorough = !strcmp(argv[++i], "thorough");
    else if (!strcmp(argv[i], "--case") && i + 1 < argc) one = argv[++i];
    else if (!strcmp(argv[i], "--jobs") && i + 1 < argc) nproc = atoi(argv[++i]);
    else if (!strcmp(argv[i], "--prop") && i + 1 < argc) property = argv[++i];      /* the same component serving another property's check */
    else if (!strcmp(argv[i], "--comp") && i + 1 < argc) component = argv[++i];
    else { fprintf(stderr, "usage: %s --tier quick|thorough --stats FILE [--jobs N] | --case 'KEY'\n", argv[0]); exit(2); }
  }
  COMPONENT = component; PROPERTY = property;
  mkdirs(component);
  if (one) { make_opts(0); return replay_one(one); }
  if (!stats) { fprintf(stderr, "--stats FILE required\n"); exit(2); }
  sq_begin(property, component, engine, "replays", argv[0]);
  set_tier(thorough, nfq, nft);
  if (nproc <= 0) { nproc = (int)sysconf(_SC_NPROCESSORS_ONLN); if (nproc > 16) nproc = 16; if (nproc < 1) nproc = 1; }
  NPROC = nproc;
  if (getenv("DAG_LIMIT")) { long l = atol(getenv("DAG_LIMIT")); if (l >= 0 && l < NPROGS) { NPROGS = l; SQ.exhaustive = 0; } }   /* development aid only (0: the large executions alone) */
  SLOTS = mmap(NULL, sizeof(slot_t) * NPROC + 64, PROT_READ | PROT_WRITE, MAP_SHARED | MAP_ANONYMOUS, -1, 0);
  if (SLOTS == MAP_FAILED) { perror("mmap"); SQ.engine_error = 1; return sq_end(stats); }
  NEXT_PROG = (volatile long *)&SLOTS[NPROC];
  pid_t pids[64]; long crashes = 0;
  fflush(NULL);
  for (int k = 0; k < NPROC; k++) { pids[k] = fork(); if (pids[k] == 0) worker_main(k, NULL); if (pids[k] < 0) { SQ.engine_error = 1; } }
  /* crash findings are kept by the parent (a crashed worker cannot report) */
  static cls_t crash_cls[8]; int ncrash_cls = 0;
  for (int live = NPROC; live > 0; ) {
    int st; pid_t pid = wait(&st); if (pid < 0) { if (errno == EINTR) continue; break; }
    int k; for (k = 0; k < NPROC; k++) if (pids[k] == pid) break;
    if (k == NPROC) continue;
    slot_t * sl = &SLOTS[k];
    if (sl->done) { live--; continue; }
    /* only a synchronous fault is the recorder's doing; SIGKILL (out of memory, an operator) is an engine problem */
    int sig = WIFSIGNALED(st) ? WTERMSIG(st) : 0;
    int faulted = sig == SIGSEGV || sig == SIGBUS || sig == SIGFPE || sig == SIGILL || sig == SIGABRT;
    if (sl->engine_error || !sl->in_case || !faulted || crashes > 2000) { SQ.engine_error = 1; live--; fprintf(stderr, "worker %d died (wait status 0x%x)%s\n", k, st, sl->in_case ? "" : " outside a case"); continue; }
    /* the recorder killed the worker (signal) inside a case: a finding; continue behind that case */
    crashes++;
    char cls[100]; snprintf(cls, sizeof cls, "abort:signal:%s", WIFSIGNALED(st) ? strsignal(WTERMSIG(st)) : "exit");
    for (char * z = cls; *z; z++) if (*z == ' ') *z = '_';
    int i; for (i = 0; i < ncrash_cls; i++) if (!strcmp(crash_cls[i].cls, cls)) break;
    if (i == ncrash_cls && ncrash_cls < 8) { ncrash_cls++; snprintf(crash_cls[i].cls, sizeof crash_cls[i].cls, "%s", cls); }
    if (i < ncrash_cls) {
      cls_t * c = &crash_cls[i]; c->count++;
      if (c->n < NBEST) { fnd_t * f = &c->best[c->n++]; f->rank = c->count; snprintf(f->key, sizeof f->key, "%s %s", cls, sl->cur_key);
	snprintf(f->msg, sizeof f->msg, "the recorder kills the process on a valid execution (wait status 0x%x)", st); snprintf(f->args, sizeof f->args, "--case '%s'", sl->cur_key); }
    }
    sl->states++; sl->in_case = 0;
    pos_t rs = sl->pos;
    fflush(NULL);
    pids[k] = fork(); if (pids[k] == 0) worker_main(k, &rs); if (pids[k] < 0) { SQ.engine_error = 1; live--; }
  }
  /* merge */
  static cls_t all[MAXCLS * 2]; int nall = 0, large_sampled = 0; long traps = 0, schedules = 0, groups = 0, aux[4] = { 0 }, nlarge_cases = 0;
  for (int k = 0; k < NPROC; k++) if (SLOTS[k].large_sample[0] && !large_sampled) { large_sampled = 1; sq_sample("%s", SLOTS[k].large_sample); }
  for (int k = 0; k < NPROC + 1; k++) {
    cls_t * src; int n;
    if (k < NPROC) { slot_t * sl = &SLOTS[k]; SQ.states += sl->states; SQ.transitions += sl->transitions; SQ.evaluations += sl->evaluations; traps += sl->traps; schedules += sl->schedules; groups += sl->groups;
      for (int a = 0; a < 4; a++) aux[a] += sl->aux[a];
      if (sl->engine_error || sl->cls_overflow) SQ.engine_error = 1; src = sl->cls; n = sl->ncls;
      nlarge_cases += sl->large;
      for (int i = 0; i < sl->nsample && k < 3; i++) sq_sample("%s", sl->sample[i]);
    } else { src = crash_cls; n = ncrash_cls; }
    for (int i = 0; i < n; i++) {
      int j; for (j = 0; j < nall; j++) if (!strcmp(all[j].cls, src[i].cls)) break;
      if (j == nall) { if (nall == MAXCLS * 2) { SQ.engine_error = 1; continue; } all[nall++] = src[i]; continue; }
      all[j].count += src[i].count;
      for (int b = 0; b < src[i].n; b++) {
	fnd_t * f = &src[i].best[b]; int at = -1;
	if (all[j].n < NBEST) at = all[j].n++; else { int w = 0; for (int z = 1; z < NBEST; z++) if (all[j].best[z].rank > all[j].best[w].rank) w = z; if (all[j].best[w].rank > f->rank) at = w; }
	if (at >= 0) all[j].best[at] = *f;
      }
    }
  }
  SQ.distinct = aux[1];   /* cases whose recorded DAG differs byte-wise from that of every earlier option setting of the same execution */
  /* report: per class the smallest reproducer first; second examples only while there is room */
  const fnd_t * order[MAXCLS * 2 * NBEST]; int no = 0;
  for (int pass = 0; pass < NBEST; pass++) {
    const fnd_t * tmp[MAXCLS * 2]; int nt = 0;
    for (int j = 0; j < nall; j++) {
      if (all[j].n <= pass) continue;
      const fnd_t * srt[NBEST]; for (int b = 0; b < all[j].n; b++) srt[b] = &all[j].best[b];
      qsort(srt, all[j].n, sizeof srt[0], fnd_cmp); tmp[nt++] = srt[pass];
    }
    qsort(tmp, nt, sizeof tmp[0], fnd_cmp);
    for (int i = 0; i < nt; i++) order[no++] = tmp[i];
  }
  for (int i = 0; i < no; i++) sq_found(order[i]->key, order[i]->args, "%s", order[i]->msg);
  sq_detail("%s; %ld programs (<= %d tasks, <= %d sections in all, nesting <= 2, <= 2 creates per section, <= 1 other per task) x %d timing(s) (+ implicit section opening with the first) x W=1..%d: %ld schedules (<= %d steals/migrations), x %d option settings",
	    what, NPROGS, GB.maxt, GB.maxsec, NTIMINGS, MAXW, schedules, MAXSTEAL, NOPTS);
  if (NFMAX > 1) sq_detail(" x 1..%d file names", NFMAX);
  sq_detail(" = %ld enumerated cases; + %d large executions, not enumerated, one schedule each (", SQ.states - nlarge_cases, NLARGE);
  for (int i = 0; i < NLARGE; i++) sq_detail("%s%s:%d/W%d", i ? " " : "", LKN[LARGE[i].kind], LARGE[i].size, LARGE[i].W);
  sq_detail(") under the same timings / option settings = %ld cases; %ld cases in all on %d processes;", nlarge_cases, SQ.states, NPROC);
  for (int a = 0; a < 4; a++) if (AUX_NAMES[a]) sq_detail(" %ld %s,", aux[a], AUX_NAMES[a]);
  sq_detail(" %ld trapped aborts, %ld process crashes; disagreement classes:", traps, crashes);
  for (int j = 0; j < nall; j++) sq_detail(" [%s x%ld]", all[j].cls, all[j].count);
  if (!nall) sq_detail(" none");
  return sq_end(stats);
}
