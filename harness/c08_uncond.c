/* C08 --- uncondition variable: single-slot SPSC hand-off following the documented protocol
 * (waiter announces itself with a CAS on the data word, the other side clears the announcement and signals). */
#include "hcommon.h"
typedef struct { int n, W, K, order, relay; } prog_t;   /* relay: 0 SPSC, 1 relay, 2 one waiter + a fresh detached signaler thread per rendezvous */
#define MAXP 64
static prog_t P[2][MAXP]; static int NP[2];
static void add(int tier, int n, int order, int W, int K) { if (NP[tier] < MAXP) { prog_t * p = &P[tier][NP[tier]++]; p->n = n; p->order = order; p->W = W; p->K = K; p->relay = 0; } }
static void build(void) {
  static int built; if (built) return; built = 1;
  for (int tier = 0; tier < 2; tier++) for (int W = 1; W <= (tier ? 3 : 2); W++) for (int n = 1; n <= 3; n++) for (int o = 0; o < 2; o++) {
    int K = tier ? 3 : 2; if (n == 3) K = tier ? 2 : 1; if (W == 3) K = 2; if (W == 3 && n == 3) K = 1;
    add(tier, n, o, W, K);
  }
  /* relay: one signaler, two waiters taking turns on the same variable (a new rendezvous may start while the
     previous waiter has been handed back to the scheduler but has not run yet) */
  for (int tier = 0; tier < 2; tier++) for (int W = 1; W <= (tier ? 3 : 2); W++) for (int n = 2; n <= (tier ? 4 : 3); n++) {
    if (NP[tier] < MAXP) { prog_t * p = &P[tier][NP[tier]++]; p->n = n; p->order = 0; p->W = W; p->K = (n == 2 ? (tier ? 3 : 2) : (tier ? 2 : 1)); if (W == 3 && p->K > 2) p->K = 2; p->relay = 1; }
  }
}
static void build2(void) {
  static int built2; if (built2) return; built2 = 1; build();
  for (int tier = 0; tier < 2; tier++) for (int W = 1; W <= 2; W++) for (int n = 2; n <= (tier ? 4 : 3); n++)
    if (NP[tier] < MAXP) { prog_t * p = &P[tier][NP[tier]++]; p->n = n; p->order = 0; p->W = W; p->K = n == 2 ? 2 : 1; p->relay = 2; }
  /* relay 3: the uncondition variable is a local variable of the waiter (as in the library's own use of the primitive): once the waiter has
     been resumed the variable's memory is the waiter's again */
  for (int tier = 0; tier < 2; tier++) for (int W = 1; W <= 2; W++) for (int n = 1; n <= 2; n++)
    if (NP[tier] < MAXP) { prog_t * p = &P[tier][NP[tier]++]; p->n = n; p->order = 0; p->W = W; p->K = tier ? 3 : 2; p->relay = 3; }
}
static int nprogs(int tier) { build2(); return NP[tier]; }
static void config(int tier, int prog, int * W, int * K) { build2(); *W = P[tier][prog].W; *K = P[tier][prog].K; }
static void describe(int tier, int prog, char * b, size_t n) { build2(); prog_t * p = &P[tier][prog];
  if (p->relay == 3) snprintf(b, n, "uncond on the waiter's stack: %d rendezvous, the waiter re-uses the variable's memory right after each wake-up", p->n);
  else if (p->relay == 2) snprintf(b, n, "uncond: one waiter, %d rendezvous, each signalled by a fresh detached thread that ends right after the signal", p->n);
  else if (p->relay) snprintf(b, n, "uncond relay: one signaler, two alternating waiters, %d rendezvous on one variable", p->n);
  else snprintf(b, n, "uncond SPSC hand-off of %d items, %s created first", p->n, p->order ? "consumer" : "producer"); }
enum { ST_FULL = 1, ST_SLEEPING = 2 };
static prog_t * cur; static volatile long cell; static myth_uncond_t u;
static volatile int waits, signals, resumed;
static int cas(volatile long * p, long o, long n) { mv_point(p, sizeof *p); return __sync_bool_compare_and_swap(p, o, n); }
static void do_wait(void) { int my = ++waits; myth_uncond_wait(&u); resumed++; MV_CHECK(signals >= my, "waiter resumed without a signal (wait #%d, signals so far %d)", my, signals); mv_cover(0); }
static void do_signal(void) {
  mv_point(&signals, sizeof(int)); signals++;
  int r0 = resumed;
  myth_uncond_signal(&u);
  (void)r0;
}
static void put(long x) {
  for (int i = 0; i < 50; i++) {
    mv_point(&cell, sizeof cell); long o = cell;
    if (o & ST_FULL) { MV_CHECK(!(o & ST_SLEEPING), "protocol: two sleepers"); if (cas(&cell, o, o | ST_SLEEPING)) do_wait(); }
    else if (cas(&cell, o, (x << 2) | ST_FULL)) { if (o & ST_SLEEPING) { mv_cover(1); do_signal(); } return; }
  }
  mv_fail("producer could not put within 50 attempts");
}
static long get(void) {
  for (int i = 0; i < 50; i++) {
    mv_point(&cell, sizeof cell); long o = cell;
    if (o & ST_FULL) { if (cas(&cell, o, 0)) { if (o & ST_SLEEPING) { mv_cover(2); do_signal(); } return o >> 2; } }
    else { MV_CHECK(!(o & ST_SLEEPING), "protocol: two sleepers"); if (cas(&cell, o, o | ST_SLEEPING)) do_wait(); }
  }
  mv_fail("consumer could not get within 50 attempts"); return -1;
}
static void * producer(void * a) { (void)a; for (int i = 1; i <= cur->n; i++) put(i); return 0; }
static void * consumer(void * a) { (void)a; for (int i = 1; i <= cur->n; i++) { long x = get(); MV_CHECK(x == i, "consumer received %ld instead of %d (lost or duplicated hand-off)", x, i); } return (void *)1; }
/* relay: rendezvous r uses flag word rv[r]: 0 nobody yet, 1 posted by the signaler, 2 the waiter sleeps */
static volatile long rv[6]; static volatile int rv_resumed[6], rv_signalled[6], rv_done[6];
static void * relay_waiter(void * a) {
  int me = (int)(long)a;
  for (int r = me; r < cur->n; r += 2) {
    /* only one thread may block on the variable at a time: wait until the signaler is through with rendezvous r-1
       (its waiter may have been handed back to the scheduler without having run yet) */
    while (r > 0 && !rv_done[r - 1]) mv_wait_until_changed(&rv_done[r - 1], sizeof(int));
    mv_point(&rv[r], sizeof(long));
    if (__sync_bool_compare_and_swap(&rv[r], 0, 2)) {
      myth_uncond_wait(&u);
      MV_CHECK(rv_signalled[r], "waiter of rendezvous %d resumed although its signal was never issued", r);
      mv_cover(0);
    }
    rv_resumed[r]++;
    MV_CHECK(rv_resumed[r] == 1, "waiter of rendezvous %d resumed %d times", r, rv_resumed[r]);
  }
  return 0;
}
static void * relay_signaler(void * a) {
  (void)a;
  for (int r = 0; r < cur->n; r++) {
    mv_point(&rv[r], sizeof(long));
    long o = __sync_val_compare_and_swap(&rv[r], 0, 1);
    if (o == 2) { mv_point(&rv_signalled[r], sizeof(int)); rv_signalled[r] = 1; mv_cover(1); mv_cover(2); myth_uncond_signal(&u); }
    mv_point(&rv_done[r], sizeof(int)); rv_done[r] = 1;
  }
  return 0;
}
/* detached signalers */
static volatile int ds_done[6];
static void * ds_waiter(void * a) {
  (void)a; myth_thread_t me = myth_self();
  for (int r = 0; r < cur->n; r++) {
    mv_point(&rv[r], sizeof(long));
    if (__sync_bool_compare_and_swap(&rv[r], 0, 2)) {
      myth_uncond_wait(&u);
      MV_CHECK(rv_signalled[r], "waiter resumed in rendezvous %d although its signal was never issued", r);
      mv_cover(0);
    }
    MV_CHECK(myth_self() == me, "after rendezvous %d myth_self() of the waiter is %p, before it was %p (the worker's notion of the running thread is stale)", r, (void *)myth_self(), (void *)me);
    rv_resumed[r]++;
    mv_point(&ds_done[r], sizeof(int)); ds_done[r] = 1;
  }
  return (void *)1;
}
static void * ds_signaler(void * a) {
  int r = (int)(long)a;
  mv_point(&rv[r], sizeof(long));
  long o = __sync_val_compare_and_swap(&rv[r], 0, 1);
  if (o == 2) { mv_point(&rv_signalled[r], sizeof(int)); rv_signalled[r] = 1; mv_cover(1); mv_cover(2); myth_uncond_signal(&u); }
  return 0;                       /* ends at once: its record is released while the waiter it woke may be next on this worker */
}
static void run_detached_signalers(void) {
  h_uncond_init(&u);
  myth_thread_t w = myth_create(ds_waiter, 0);
  for (int r = 0; r < cur->n; r++) {
    myth_thread_t s;
    if (r & 1) { s = myth_create(ds_signaler, (void *)(long)r); myth_detach(s); }
    else { myth_thread_attr_t at; memset(&at, 0x5A, sizeof at); myth_thread_attr_init(&at); myth_thread_attr_setdetachstate(&at, 1 /* detached */); myth_create_ex(&s, &at, ds_signaler, (void *)(long)r); }
    while (!ds_done[r]) mv_wait_until_changed(&ds_done[r], sizeof(int));
  }
  void * res = 0; myth_join(w, &res); MV_CHECK(res == (void *)1, "waiter delivered %p", res);
  mv_quiesce();
  for (int r = 0; r < cur->n; r++) MV_CHECK(rv_resumed[r] == 1, "rendezvous %d: waiter passed %d times", r, rv_resumed[r]);
  MV_CHECK(u.th == 0, "uncondition variable still holds a thread at the end");
  mv_obs("detached signalers n=%d", cur->n);
  h_uncond_epilogue(&u);
  mv_finish();
}
/* relay 3: uncondition variable on the waiter's stack */
static myth_uncond_t * volatile st_u[4]; static volatile long st_flag[4];
static void __attribute__((noinline)) st_one_round(int r) {
  volatile unsigned long frame[8];                     /* the variable lives among the waiter's locals */
  myth_uncond_t * uu = (myth_uncond_t *)&frame[2];
  h_uncond_init(uu);
  mv_point(&st_u[r], sizeof(void *)); st_u[r] = uu;
  mv_point(&st_flag[r], sizeof(long));
  if (__sync_bool_compare_and_swap(&st_flag[r], 0, 2)) myth_uncond_wait(uu);
  /* resumed (or never slept): from here on this memory is an ordinary local again */
  for (int i = 0; i < 8; i++) frame[i] = 0xF00D000000000000UL + (unsigned long)(r * 16 + i);
  myth_yield();
  for (int i = 0; i < 8; i++) MV_CHECK(frame[i] == 0xF00D000000000000UL + (unsigned long)(r * 16 + i), "a local of the resumed waiter changed (word %d holds %#lx): the signaller wrote to the uncondition variable after handing the waiter back", i, frame[i]);
}
static void * st_waiter(void * a) { (void)a; for (int r = 0; r < cur->n; r++) st_one_round(r); return (void *)1; }
static void * st_signaler(void * a) {
  (void)a;
  for (int r = 0; r < cur->n; r++) {
    while (!st_u[r]) mv_wait_until_changed(&st_u[r], sizeof(void *));
    mv_point(&st_flag[r], sizeof(long));
    long o = __sync_val_compare_and_swap(&st_flag[r], 0, 1);
    if (o == 2) { mv_cover(1); mv_cover(2); myth_uncond_signal(st_u[r]); mv_cover(0); }
  }
  return 0;
}
static void run_stack_uncond(void) {
  myth_thread_t w = myth_create(st_waiter, 0), s = myth_create(st_signaler, 0); void * r = 0;
  myth_join(s, 0); myth_join(w, &r); MV_CHECK(r == (void *)1, "waiter delivered %p", r);
  mv_obs("stack uncond n=%d", cur->n);
  mv_finish();
}
static void run_relay(void) {
  h_uncond_init(&u);
  myth_thread_t w0 = myth_create(relay_waiter, (void *)0), w1 = myth_create(relay_waiter, (void *)1), sg = myth_create(relay_signaler, 0);
  myth_join(sg, 0); myth_join(w0, 0); myth_join(w1, 0);
  for (int r = 0; r < cur->n; r++) MV_CHECK(rv_resumed[r] == 1, "rendezvous %d: waiter passed %d times", r, rv_resumed[r]);
  MV_CHECK(u.th == 0, "uncondition variable still holds a thread at the end");
  mv_obs("relay n=%d", cur->n);
  h_uncond_epilogue(&u);
  mv_finish();
}
static void run(int tier, int prog) {
  build2(); cur = &P[tier][prog];
  mv_start(cur->W);
  h_maybe_custom_steal(prog, cur->W);
  if (cur->relay == 3) { run_stack_uncond(); return; }
  if (cur->relay == 2) { run_detached_signalers(); return; }
  if (cur->relay) { run_relay(); return; }
  h_uncond_init(&u);
  myth_thread_t a, b; void * r = 0;
  if (cur->order) { b = myth_create(consumer, 0); a = myth_create(producer, 0); } else { a = myth_create(producer, 0); b = myth_create(consumer, 0); }
  myth_join(a, 0); myth_join(b, &r);
  MV_CHECK(r == (void *)1, "consumer did not complete");
  MV_CHECK(waits == signals && resumed == waits, "rendezvous mismatch: waits=%d signals=%d resumed=%d", waits, signals, resumed);
  MV_CHECK(u.th == 0, "uncondition variable still holds a thread at the end");
  mv_obs("n=%d waits=%d", cur->n, waits);
  h_uncond_epilogue(&u);
  mv_finish();
}
static const char * const cover_names[] = { "a_thread_waited", "producer_signalled", "consumer_signalled", 0 };
static uint64_t cover_required(int tier) { (void)tier; return 7; }
mc_harness_t mc_harness = { "C08", "uncond", nprogs, describe, config, run, cover_names, cover_required };
