/* C13 (pthread part) --- every thread created through the pthread interface is reaped exactly once and reaping recycles:
 * join, pthread_detach, and the detach state requested through pthread_attr_setdetachstate at creation.
 * Runs over the pthread-wrapping builds of the library (engine/build_e1_wrap.sh); the ownership ledger behind the
 * ALLOC/FREE hooks judges quiescence (every record and stack handed out has been released) and, on one worker,
 * recycling (no fresh record or stack after the first create/reap cycle).
 *
 * history ::= cycle+ ;  cycle ::= mode body ;
 *   mode: A = pthread_create with an attribute object set to PTHREAD_CREATE_DETACHED
 *         J = pthread_create with an attribute object set to PTHREAD_CREATE_JOINABLE, then pthread_join
 *         N = pthread_create(NULL attributes), then pthread_join
 *         X = pthread_create(NULL attributes), then pthread_detach
 *   body: r = returns at once, y = yields once first
 */
#include <pthread.h>
#include <sched.h>
#include "hcommon.h"

typedef struct { char ops[24]; int W, K, recycle; } prog_t;
#define MAXP 600
static prog_t P[2][MAXP]; static int NP[2];
static void add(int tier, const char * ops, int W, int K, int rc) { if (NP[tier] < MAXP) { prog_t * p = &P[tier][NP[tier]++]; snprintf(p->ops, sizeof p->ops, "%s", ops); p->W = W; p->K = K; p->recycle = rc; } }
static void gen(int tier, char * pre, int idx, int L) {
  if (idx > 0) { add(tier, pre, 1, idx >= 3 ? 1 : 2, 1); add(tier, pre, 2, idx >= 3 ? 1 : (idx == 1 ? 2 : (tier ? 2 : 1)), 0); }
  if (idx == L) return;
  for (const char * m = "AJNX"; *m; m++) for (int b = 0; b < 2; b++) {
    if (idx >= 1 && b == 0 && idx + 1 < L) continue;   /* long histories use yielding bodies in the middle */
    char buf[24]; snprintf(buf, sizeof buf, "%s%c%c", pre, *m, b ? 'y' : 'r');
    gen(tier, buf, idx + 1, L);
  }
}
static void build(void) {
  static int built; if (built) return; built = 1;
  for (int tier = 0; tier < 2; tier++) { char pre[24] = ""; gen(tier, pre, 0, tier ? 3 : 2); }
}
static int nprogs(int tier) { build(); return NP[tier]; }
static void config(int tier, int prog, int * W, int * K) { build(); *W = P[tier][prog].W; *K = P[tier][prog].K; }
static void describe(int tier, int prog, char * b, size_t n) { build(); snprintf(b, n, "pthread create/reap cycles %s (A=attr detached, J=attr joinable+join, N=join, X=pthread_detach; r/y body)", P[tier][prog].ops); }

static prog_t * cur;
static volatile int fin[8], started[8]; static int yields[8];
static void * body(void * a) {
  int i = (int)(long)a;
  started[i]++;
  if (yields[i]) sched_yield();
  mv_point(&fin[i], sizeof(int));
  fin[i] = 1;
  return (void *)(long)(7000 + i);
}
static void run(int tier, int prog) {
  build(); cur = &P[tier][prog];
  mv_start(cur->W);
  long base_d = mv_ledger_outstanding(0), base_s = mv_ledger_outstanding(1);
  long fresh_d = -1, fresh_s = -1; int n = 0;
  for (const char * q = cur->ops; *q; q += 2, n++) {
    pthread_t t; void * r = (void *)-1L; int rc;
    yields[n] = q[1] == 'y';
    if (*q == 'A' || *q == 'J') {
      pthread_attr_t at; memset(&at, 0x5A, sizeof at);
      rc = pthread_attr_init(&at); MV_CHECK(rc == 0, "pthread_attr_init returned %d", rc);
      rc = pthread_attr_setdetachstate(&at, *q == 'A' ? PTHREAD_CREATE_DETACHED : PTHREAD_CREATE_JOINABLE); MV_CHECK(rc == 0, "pthread_attr_setdetachstate returned %d", rc);
      rc = pthread_create(&t, &at, body, (void *)(long)n); MV_CHECK(rc == 0, "pthread_create returned %d", rc);
      pthread_attr_destroy(&at);
      mv_cover(*q == 'A' ? 0 : 1);
    } else { rc = pthread_create(&t, NULL, body, (void *)(long)n); MV_CHECK(rc == 0, "pthread_create returned %d", rc); }
    if (*q == 'J' || *q == 'N') {
      rc = pthread_join(t, &r); MV_CHECK(rc == 0, "pthread_join returned %d", rc);
      MV_CHECK(fin[n] == 1, "pthread_join of thread %d returned before its function finished", n);
      MV_CHECK((long)r == 7000 + n, "pthread_join of thread %d delivered %ld", n, (long)r);
      mv_cover(2);
    } else if (*q == 'X') { int f0 = fin[n]; rc = pthread_detach(t); MV_CHECK(rc == 0, "pthread_detach returned %d", rc); mv_cover(f0 ? 3 : 4); }
    if (cur->recycle) {
      /* a detached thread reaps itself: let it finish and release before the next creation, then "reaping recycles" can be judged */
      while (!fin[n]) mv_wait_until_changed(&fin[n], sizeof(int));
      mv_quiesce();
      if (n == 0) { fresh_d = mv_ledger_fresh(0); fresh_s = mv_ledger_fresh(1); }
    }
  }
  for (int i = 0; i < n; i++) while (!fin[i]) mv_wait_until_changed(&fin[i], sizeof(int));
  volatile long * od = mv_ledger_out_ptr(0), * os = mv_ledger_out_ptr(1);
  mv_quiesce();
  MV_CHECK(*od == base_d, "%ld thread record(s) never released although every thread was joined, detached or created detached (history %s)", *od - base_d, cur->ops);
  MV_CHECK(*os == base_s, "%ld stack(s) never returned to an allocator after every thread was reaped (history %s)", *os - base_s, cur->ops);
  if (cur->recycle && fresh_d >= 0)
    MV_CHECK(mv_ledger_fresh(0) == fresh_d && mv_ledger_fresh(1) == fresh_s,
	     "create/reap cycles on one worker needed fresh memory after the first cycle (records %ld -> %ld, stacks %ld -> %ld): reaping does not recycle",
	     fresh_d, mv_ledger_fresh(0), fresh_s, mv_ledger_fresh(1));
  for (int i = 0; i < n; i++) MV_CHECK(started[i] == 1 && fin[i] == 1, "thread %d started %d times, finished %d", i, started[i], fin[i]);
  mv_obs("threads=%d fresh=%ld/%ld", n, mv_ledger_fresh(0), mv_ledger_fresh(1));
  mv_finish();
}
static const char * const cover_names[] = { "attr_detached", "attr_joinable", "join", "detach_after_finish", "detach_before_finish", 0 };
static uint64_t cover_required(int tier) { (void)tier; return 0x1f; }
mc_harness_t mc_harness = { "C13", "preap", nprogs, describe, config, run, cover_names, cover_required };
