/* C19 --- DAG files are well formed and survive dump / read / convert (engine E3, see dag_sim.h).
 *
 * Per case (program, timing, section opening, W, schedule, number of file names, record-time options):
 *   roundtrip:     dr_dump() writes the .dag file in this worker's scratch directory under build/c19/scratch/ and
 *                  dr_read_dag() reads it back (see through_file() for the two ways the bytes travel).  The mapping
 *                  dr_read_dag returns IS the file: it is compared here byte by byte (header, n, m, start clock,
 *                  workers, size, T, E, string table) with the position-independent DAG this unit makes from the same
 *                  in-memory graph with the library's own converter; T and E must be byte-identical, the string
 *                  table equal (its two pointer members excluded, they must point into the mapping)
 *   structure:     an independent validator over dr_pi_dag (offsets, kinds, tree shape, edge order and ranges,
 *                  reachability in the tree and along edges, string indices) - on the dumped and on every converted DAG
 *   content:       every interval node of the file is the interval the simulator executed (kind, worker, clocks, work,
 *                  file names and lines of both ends); work / critical path (heaviest path along the file's explicit
 *                  edges) / node counts of the file equal the oracle's
 *   chronological: the library's dr_pi_dag_chronological_traverse with a counting traverser
 *   shrink-totals: dr_copy_pi_dag under each of the 20 conversion settings; work, critical path (recomputed along the
 *                  explicit edges), node and edge totals of the converted DAG == those of the DAG it was made from;
 *                  converted DAGs are also validated and traversed, and - when their input is the uncontracted
 *                  recording, of which every other input is a contraction - written with dr_gen_pi_dag and read back
 * Memoisation (sound: everything downstream is a function of these bytes): a record-time setting that leaves the very
 * same bytes in T/E/S as an earlier setting of the same execution is not pushed through the file checks again; a
 * conversion whose output has the bytes of its input or of an earlier conversion of the same input is not judged again.
 * 2..4 file names: on the serial execution (W = 1, first timing) under every record-time setting.
 * Key prefixes: roundtrip:  structure:  content:  chronological:  shrink-totals:  abort:
 */
#include "dag_sim.h"

typedef struct { unsigned long long cmax, umin; long cc; } conv_t;
static conv_t CONV[20]; static int NCONV;

/* ------------------------------------------------------------------ independent helpers over dr_pi_dag */
static int is_leaf(const dr_pi_dag_node * x) { return x->info.kind < dr_dag_node_kind_section || x->subgraphs_begin_offset == x->subgraphs_end_offset; }
static const char * pi_str(const dr_pi_dag * G, long idx) { return (idx >= 0 && idx < G->S->n) ? G->S->C + G->S->I[idx] : NULL; }

#define MAXN 16384        /* nodes / edges of one DAG (enumerated programs: < 50; the large executions: a few thousand) */
typedef struct { long work, crit, nodes[4], edges[EK_MAX], root_work, root_crit, root_nodes[4]; int ok; } totals_t;
static const int EKMAP[EK_MAX] = { dr_dag_edge_kind_end, dr_dag_edge_kind_create, dr_dag_edge_kind_create_cont, dr_dag_edge_kind_wait_cont, dr_dag_edge_kind_other_cont };
static const int NKMAP[4] = { dr_dag_node_kind_create_task, dr_dag_node_kind_wait_tasks, dr_dag_node_kind_other, dr_dag_node_kind_end_task };
/* totals as a reader of the file sees them: leaves (intervals and contracted subgraphs) carry work and summaries,
   explicit edges connect them; the critical path is the heaviest path along explicit edges, a contracted subgraph
   weighing its own t_inf.  Needs a structurally valid G. */
static void pi_totals(const dr_pi_dag * G, totals_t * t) {
  memset(t, 0, sizeof *t);
  long n = G->n, m = G->m;
  static long dist[MAXN], order[MAXN]; static int indeg[MAXN]; long no = 0, nleaf = 0;
  memset(dist, 0, sizeof(long) * n); memset(indeg, 0, sizeof(int) * n);
  for (long i = 0; i < n; i++) {
    const dr_pi_dag_node * x = &G->T[i];
    if (!is_leaf(x)) continue;
    nleaf++; t->work += (long)x->info.t_1;
    for (int k = 0; k < 4; k++) t->nodes[k] += x->info.logical_node_counts[NKMAP[k]];
    if (x->info.kind >= dr_dag_node_kind_section) for (int k = 0; k < EK_MAX; k++) t->edges[k] += x->info.logical_edge_counts[EKMAP[k]];
  }
  for (long j = 0; j < m; j++) { for (int k = 0; k < EK_MAX; k++) if ((int)G->E[j].kind == EKMAP[k]) t->edges[k]++; indeg[G->E[j].v]++; }
  for (long i = 0; i < n; i++) if (is_leaf(&G->T[i]) && indeg[i] == 0) order[no++] = i;
  for (long h = 0; h < no; h++) {
    long u = order[h]; dist[u] += (long)G->T[u].info.t_inf; if (dist[u] > t->crit) t->crit = dist[u];
    for (long j = G->T[u].edges_begin; j < G->T[u].edges_end; j++) { long v = G->E[j].v; if (dist[v] < dist[u]) dist[v] = dist[u]; if (--indeg[v] == 0) order[no++] = v; }
  }
  t->ok = no == nleaf;                                 /* otherwise the explicit edges have a cycle */
  t->root_work = (long)G->T[0].info.t_1; t->root_crit = (long)G->T[0].info.t_inf;
  for (int k = 0; k < 4; k++) t->root_nodes[k] = G->T[0].info.logical_node_counts[NKMAP[k]];
}

/* returns 0 when G is too broken for the later steps */
static int validate(const dr_pi_dag * G, const char * which, const char * extra) {
  char cls[100]; long n = G->n, m = G->m; int ok = 1;
#define BAD(name, ...) do { snprintf(cls, sizeof cls, "structure:%s:%s", which, name); found(cls, extra, __VA_ARGS__); ok = 0; } while (0)
  if (n <= 0 || m < 0 || n > MAXN || m > MAXN) { BAD("size", "n = %ld, m = %ld", n, m); return 0; }
  if (G->T[0].info.kind != dr_dag_node_kind_task) BAD("root-kind", "node 0 has kind %d, not a task", G->T[0].info.kind);
  static int refs[MAXN]; memset(refs, 0, sizeof(int) * n);
  for (long i = 0; i < n && ok; i++) {
    const dr_pi_dag_node * x = &G->T[i]; int k = x->info.kind;
    if (k < 0 || k > dr_dag_node_kind_task) { BAD("node-kind", "node %ld has kind %d", i, k); break; }
    if (x->edges_begin < 0 || x->edges_begin > x->edges_end || x->edges_end > m) { BAD("edge-range", "node %ld has edge range [%ld,%ld), m = %ld", i, x->edges_begin, x->edges_end, m); break; }
    if (k == dr_dag_node_kind_create_task) {
      long c = i + x->child_offset;
      if (x->child_offset <= 0 || c >= n) { BAD("child-offset", "create node %ld has child offset %ld, n = %ld", i, x->child_offset, n); break; }
      if (G->T[c].info.kind != dr_dag_node_kind_task) { BAD("child-kind", "child of create node %ld has kind %d", i, G->T[c].info.kind); break; }
      refs[c]++;
    } else if (k >= dr_dag_node_kind_section) {
      long b = x->subgraphs_begin_offset, e = x->subgraphs_end_offset;
      if (b > e) { BAD("subgraph-range", "node %ld has subgraph offsets [%ld,%ld)", i, b, e); break; }
      if (b < e) {
	if (b <= 0 || i + e > n) { BAD("subgraph-offset", "node %ld (kind %d) has subgraph offsets [%ld,%ld), n = %ld", i, k, b, e, n); break; }
	for (long c = i + b; c < i + e; c++) {
	  int ck = G->T[c].info.kind, last = c == i + e - 1, fine;
	  refs[c]++;
	  if (k == dr_dag_node_kind_section) fine = ck == dr_dag_node_kind_create_task || ck == dr_dag_node_kind_other || ck == dr_dag_node_kind_section || (ck == dr_dag_node_kind_wait_tasks && last);
	  else fine = ck == dr_dag_node_kind_section || ck == dr_dag_node_kind_other || (ck == dr_dag_node_kind_end_task && last);
	  if (!fine || (last && ck != (k == dr_dag_node_kind_section ? dr_dag_node_kind_wait_tasks : dr_dag_node_kind_end_task)))
	    { BAD("subgraph-grammar", "node %ld (kind %d) has child %ld of kind %d%s", i, k, c, ck, last ? " as its last child" : ""); break; }
	}
      } else if (i + b < 0 || i + b > n) {
	/* an empty range refers to no node, yet its offsets are data a reader adds to a node pointer */
	BAD("empty-range-outside", "contracted node %ld keeps subgraph offsets [%ld,%ld) that point outside the DAG (n = %ld)", i, b, e, n);
	ok = 1;                                        /* harmless for the later steps */
      }
    }
    for (int q = 0; q < 2; q++) { long fi = q ? x->info.end.pos.file_idx : x->info.start.pos.file_idx; if (fi < 0 || fi >= G->S->n) { BAD("file-index", "node %ld has file index %ld, table has %ld strings", i, fi, G->S->n); break; } }
    if (x->info.start.pos.file || x->info.end.pos.file) { BAD("pointer-in-file", "node %ld carries an in-memory file-name pointer", i); ok = 1; }
  }
  if (ok) for (long i = 1; i < n; i++) if (refs[i] != 1) { BAD("tree", "node %ld is the child of %d nodes", i, refs[i]); break; }
  if (ok && refs[0]) BAD("tree", "the root is somebody's child");
  if (!ok) return 0;
  /* edges */
  long cnt_total = 0;
  for (long j = 0; j < m; j++) {
    const dr_pi_dag_edge * e = &G->E[j];
    if (e->u < 0 || e->u >= n || e->v < 0 || e->v >= n) { BAD("edge-endpoint", "edge %ld is %ld -> %ld, n = %ld", j, e->u, e->v, n); return 0; }
    if ((int)e->kind < 0 || e->kind >= dr_dag_edge_kind_max) { BAD("edge-kind", "edge %ld has kind %d", j, e->kind); return 0; }
    if (j && G->E[j - 1].u > e->u) { BAD("edge-order", "edges %ld and %ld are not sorted by source (%ld > %ld)", j - 1, j, G->E[j - 1].u, e->u); return 0; }
    if (!(G->T[e->u].edges_begin <= j && j < G->T[e->u].edges_end)) { BAD("edge-range", "edge %ld (from %ld) lies outside its source's range [%ld,%ld)", j, e->u, G->T[e->u].edges_begin, G->T[e->u].edges_end); return 0; }
    if (!is_leaf(&G->T[e->u]) || !is_leaf(&G->T[e->v])) { BAD("edge-endpoint-not-leaf", "edge %ld joins %ld -> %ld, one of which has materialised children", j, e->u, e->v); return 0; }
  }
  for (long i = 0; i < n; i++) cnt_total += G->T[i].edges_end - G->T[i].edges_begin;
  if (cnt_total != m) { BAD("edge-range", "the edge ranges of all nodes cover %ld edges, m = %ld", cnt_total, m); return 0; }
  /* reachability: in the tree from the root, along edges from the first leaf */
  {
    static char seen[MAXN]; static long stk[2 * MAXN + 1]; long sp = 0; memset(seen, 0, n);
    stk[sp++] = 0; seen[0] = 1;
    while (sp) {
      long i = stk[--sp]; const dr_pi_dag_node * x = &G->T[i];
      if (x->info.kind == dr_dag_node_kind_create_task) { long c = i + x->child_offset; if (!seen[c]) { seen[c] = 1; stk[sp++] = c; } }
      else if (x->info.kind >= dr_dag_node_kind_section) for (long c = i + x->subgraphs_begin_offset; c < i + x->subgraphs_end_offset; c++) if (!seen[c]) { seen[c] = 1; stk[sp++] = c; }
    }
    for (long i = 0; i < n; i++) if (!seen[i]) { BAD("unreachable-in-tree", "node %ld is not reachable from the root", i); break; }
    memset(seen, 0, n);
    long f = 0; while (!is_leaf(&G->T[f])) f += G->T[f].subgraphs_begin_offset;
    sp = 0; stk[sp++] = f; seen[f] = 1;
    while (sp) { long i = stk[--sp]; for (long j = G->T[i].edges_begin; j < G->T[i].edges_end; j++) { long v = G->E[j].v; if (!seen[v]) { seen[v] = 1; stk[sp++] = v; } } }
    for (long i = 0; i < n; i++) if (is_leaf(&G->T[i]) && !seen[i]) { BAD("unreachable-by-edges", "leaf %ld (kind %d) cannot be reached from the first leaf %ld along edges", i, G->T[i].info.kind, f); break; }
  }
  /* string table: distinct, all used */
  {
    long sn = G->S->n; int used[16] = { 0 };
    if (sn <= 0 || sn > 16) { BAD("string-table", "%ld strings", sn); return ok; }
    for (long a = 0; a < sn; a++) for (long b = a + 1; b < sn; b++) if (!strcmp(pi_str(G, a), pi_str(G, b))) { BAD("string-table-duplicate", "strings %ld and %ld are both \"%s\"", a, b, pi_str(G, a)); }
    for (long i = 0; i < n; i++) { used[G->T[i].info.start.pos.file_idx] = 1; used[G->T[i].info.end.pos.file_idx] = 1; }
    for (long a = 0; a < sn; a++) if (!used[a]) { BAD("string-table-unused", "string %ld \"%s\" is used by no node", a, pi_str(G, a)); }
  }
#undef BAD
  return ok;
}

/* counting traverser */
typedef struct { void (*process_event)(chronological_traverser *, dr_event); const dr_pi_dag * G; int * cnt[4]; long n_running, n_ready, events; dr_clock_t last_t; int backwards, bad_node; } counter_t;
static void count_event(chronological_traverser * ct, dr_event ev) {
  counter_t * c = (counter_t *)ct; long i = ev.u - c->G->T;
  c->events++;
  if (i < 0 || i >= c->G->n || (int)ev.kind < 0 || ev.kind > dr_event_kind_end) { c->bad_node = 1; return; }
  c->cnt[ev.kind][i]++;
  if (ev.t < c->last_t) c->backwards++; c->last_t = ev.t;
  switch (ev.kind) { case dr_event_kind_ready: c->n_ready++; break; case dr_event_kind_start: c->n_running++; break; case dr_event_kind_last_start: c->n_ready--; break; case dr_event_kind_end: c->n_running--; break; }
}
static void chronological(dr_pi_dag * G, const char * which, const char * extra) {
  char cls[100]; counter_t c; memset(&c, 0, sizeof c); c.process_event = count_event; c.G = G;
  static int cntbuf[4][MAXN]; if (G->n > MAXN) return;
  for (int k = 0; k < 4; k++) { c.cnt[k] = cntbuf[k]; memset(cntbuf[k], 0, sizeof(int) * G->n); }
  dr_pi_dag_chronological_traverse(G, (chronological_traverser *)&c);
#define BAD(name, ...) do { snprintf(cls, sizeof cls, "chronological:%s:%s", which, name); found(cls, extra, __VA_ARGS__); } while (0)
  if (c.bad_node) BAD("bad-event", "an event names a node outside the DAG");
  for (long i = 0; i < G->n; i++) {
    int want = is_leaf(&G->T[i]);
    if (c.cnt[dr_event_kind_start][i] != want || c.cnt[dr_event_kind_end][i] != want || c.cnt[dr_event_kind_ready][i] != want || c.cnt[dr_event_kind_last_start][i] != want) {
      BAD("start-end-count", "node %ld (kind %d, %s): ready %d start %d last_start %d end %d time(s), expected %d each", i, G->T[i].info.kind, want ? "leaf" : "inner",
	  c.cnt[0][i], c.cnt[1][i], c.cnt[2][i], c.cnt[3][i], want); break;
    }
  }
  if (c.n_running || c.n_ready) BAD("not-drained", "the replay finishes with %ld running and %ld ready", c.n_running, c.n_ready);
  if (c.backwards) BAD("time-goes-backwards", "%d events are delivered with a time stamp smaller than their predecessor's", c.backwards);
#undef BAD
}

static int same_strings(const dr_pi_dag * A, const dr_pi_dag * B) {
  if (A->S->n != B->S->n || A->S->sz != B->S->sz) return 0;
  for (long i = 0; i < A->S->n; i++) if (A->S->I[i] != B->S->I[i] || strcmp(pi_str(A, i), pi_str(B, i))) return 0;
  return 1;
}
static void unread_dag(dr_pi_dag * G, size_t file_sz) {          /* dr_read_dag maps the file and never unmaps it */
  size_t hdr = DAG_RECORDER_HEADER_LEN + 4 * sizeof(long);
  munmap((char *)G->T - hdr, file_sz); free(G);
}
static size_t file_size(const char * fn) { struct stat sb; return stat(fn, &sb) ? 0 : (size_t)sb.st_size; }

/* file at `fn' must hold exactly G (checked byte by byte by this code), and dr_read_dag must return the same.
   relayed: 0 = the library wrote fn itself; otherwise the number of bytes it wrote (into the pipe), fn being the
   relay file, which may carry a stale tail of an earlier, longer DAG behind them. */
static dr_pi_dag * roundtrip(const dr_pi_dag * G, const char * fn, const char * which, const char * extra, size_t * fszp, size_t relayed) {
  char cls[100]; *fszp = 0;
#define BAD(name, ...) do { snprintf(cls, sizeof cls, "roundtrip:%s:%s", which, name); found(cls, extra, __VA_ARGS__); } while (0)
  size_t hdr = DAG_RECORDER_HEADER_LEN + 4 * sizeof(long), tsz = sizeof(dr_pi_dag_node) * G->n, esz = sizeof(dr_pi_dag_edge) * G->m;
  size_t want = hdr + tsz + esz + G->S->sz, have = file_size(fn), mapped = have;
  if (!have) { BAD("no-file", "%s was not written", fn); return NULL; }
  if (relayed) have = relayed;
  if (have != want) { BAD("file-size", "the file has %zu bytes, header + %ld nodes + %ld edges + string table need %zu", have, G->n, G->m, want); return NULL; }
  /* dr_read_dag maps the whole file privately and patches only the two pointer members of the string table: the
     mapping is the file's content, and it is compared here byte by byte with what was to be dumped */
  dr_pi_dag * R = dr_read_dag(fn);
  if (!R) { BAD("read-fails", "dr_read_dag returns null for the file just written"); return NULL; }
  *fszp = mapped;
  const unsigned char * buf = (const unsigned char *)R->T - hdr;
  long h[4]; memcpy(h, buf + DAG_RECORDER_HEADER_LEN, sizeof h);
  if (memcmp(buf, DAG_RECORDER_HEADER, DAG_RECORDER_HEADER_LEN)) BAD("header", "the file does not start with the format header");
  if (h[0] != G->n || h[1] != G->m || h[2] != G->start_clock || h[3] != G->num_workers) BAD("header-fields", "file says n=%ld m=%ld start=%ld workers=%ld, dumped n=%ld m=%ld start=%ld workers=%ld", h[0], h[1], h[2], h[3], G->n, G->m, G->start_clock, G->num_workers);
  if (h[0] != G->n || h[1] != G->m || R->n != G->n || R->m != G->m) { unread_dag(R, mapped); *fszp = 0; return NULL; }    /* E and S cannot be located */
  if ((const unsigned char *)R->E != buf + hdr + tsz || (const unsigned char *)R->S != buf + hdr + tsz + esz) BAD("read-layout", "dr_read_dag places E or S at the wrong offset");
  {
    size_t off = sizeof(dr_pi_string_table);
    if (R->S->n != G->S->n || R->S->sz != G->S->sz || memcmp((const char *)R->S + off, G->S->I, G->S->sz - off)) BAD("raw-strings", "the string table in the file differs from the one dumped");
    if ((const char *)R->S->I != (const char *)R->S + off || R->S->C != (const char *)R->S + off + sizeof(long) * R->S->n) BAD("read-string-pointers", "dr_read_dag does not point I / C at the table that follows the header");
  }
  if (R->n != G->n || R->m != G->m || R->start_clock != G->start_clock || R->num_workers != G->num_workers) BAD("read-header", "dr_read_dag: n=%ld m=%ld start=%ld workers=%ld, dumped n=%ld m=%ld start=%ld workers=%ld", R->n, R->m, R->start_clock, R->num_workers, G->n, G->m, G->start_clock, G->num_workers);
  else {
    if (memcmp(R->T, G->T, tsz)) BAD("read-nodes", "T read back differs from T dumped");
    if (memcmp(R->E, G->E, esz)) BAD("read-edges", "E read back differs from E dumped");
    if (!same_strings(R, G)) BAD("read-strings", "the string table read back differs from the one dumped");
  }
  return R;
#undef BAD
}
/* Files are removed as soon as they have been read back and are created afresh by the next dump: rewriting an
   existing file makes ext4 flush it to disk at every close (its replace-via-truncate heuristic), which costs
   milliseconds per case; a short-lived new file never leaves the page cache. */

/* every interval node in the file is an interval the simulator executed */
static void content(const dr_pi_dag * G) {
  static const int KMAP[5] = { -1, dr_dag_node_kind_create_task, dr_dag_node_kind_other, dr_dag_node_kind_wait_tasks, dr_dag_node_kind_end_task };
  const sched_t * s = CASE.s;
  static int * seen, * by_s, * by_e; static long c1, c2, c3;            /* interval (index + 1) by start line - 1000 / end line - 100 */
  GROW(seen, c1, s->niv + 1); GROW(by_s, c2, s->nsc + 1); GROW(by_e, c3, s->niv + 1);
  memset(seen, 0, sizeof(int) * (s->niv + 1)); memset(by_s, 0, sizeof(int) * (s->nsc + 1)); memset(by_e, 0, sizeof(int) * (s->niv + 1));
  for (int j = 0; j < s->niv; j++) { by_s[s->iv[j].sline - 1000] = j + 1; by_e[s->iv[j].eline - 100] = j + 1; }
  for (long i = 0; i < G->n; i++) {
    const dr_pi_dag_node * x = &G->T[i];
    const char * sf = pi_str(G, x->info.start.pos.file_idx), * ef = pi_str(G, x->info.end.pos.file_idx);
    const iv_t * first = NULL, * last = NULL;
    long ls = x->info.start.pos.line - 1000, le = x->info.end.pos.line - 100;
    if (ls >= 0 && ls < s->nsc && by_s[ls]) first = &s->iv[by_s[ls] - 1];
    if (le >= 0 && le < s->niv && by_e[le]) last = &s->iv[by_e[le] - 1];
    if (!first || !last) { found("content:unknown-position", NULL, "node %ld (kind %d) starts at line %ld and ends at line %ld; no instrumentation call was made from there", i, x->info.kind, x->info.start.pos.line, x->info.end.pos.line); return; }
    if (strcmp(sf, FILEN[first->sline % CASE.nf]) || strcmp(ef, FILEN[last->eline % CASE.nf])) { found("content:file-name", NULL, "node %ld: files \"%s\" / \"%s\", the calls were made from \"%s\" / \"%s\"", i, sf, ef, FILEN[first->sline % CASE.nf], FILEN[last->eline % CASE.nf]); return; }
    if ((long)x->info.start.t != first->t0 - T0) { found("content:start-clock", NULL, "node %ld starts at %ld, the interval beginning at that call started at %ld", i, (long)x->info.start.t, first->t0 - T0); return; }
    if (x->info.kind < dr_dag_node_kind_section) {
      if (first != last || seen[first->opid]++) { found("content:interval-identity", NULL, "interval node %ld pairs the start of interval %d with the end of interval %d%s", i, first->opid, last->opid, first == last ? " (seen twice)" : ""); return; }
      if ((int)x->info.kind != KMAP[first->kind] || x->info.worker != first->worker || (long)x->info.end.t != first->t1 - T0 || (long)x->info.t_1 != first->t1 - first->t0 || (long)x->info.t_inf != first->t1 - first->t0)
	{ found("content:interval", NULL, "interval node %ld: kind %d worker %d [%ld,%ld) t_1 %ld; executed kind %d worker %d [%ld,%ld)", i, x->info.kind, x->info.worker, (long)x->info.start.t, (long)x->info.end.t, (long)x->info.t_1,
		KMAP[first->kind], first->worker, first->t0 - T0, first->t1 - T0); return; }
    } else if ((long)x->info.end.t < last->t1 - T0) { found("content:end-clock", NULL, "node %ld (kind %d) ends at %ld, before its last interval ended (%ld)", i, x->info.kind, (long)x->info.end.t, last->t1 - T0); return; }
  }
}

static void free_pi(dr_pi_dag * G) { free(G->T); free(G->E); free(G->S); }

/* Where the library writes and where it reads.
     direct : <scratch>/dr.dag, a regular file created by the library's fopen, read back by dr_read_dag, then removed.
              Used for every serial execution (W = 1): all programs x timings x option settings x file-name counts.
     relay  : with W > 1 the library's fopen/fwrite/fclose go to <scratch>/dr-pipe.dag, a FIFO in the same directory
              whose read end this process holds; the bytes are stored with pwrite at offset 0 of <scratch>/dr-relay0.dag
              (dr-relay1.dag for converted DAGs; kept open, never truncated or removed) and dr_read_dag reads that.  The library code exercised is the
              same (dr_pi_dag_dump writes through a FILE*, dr_read_dag opens and maps a regular file holding exactly
              those bytes); what is avoided is one file creation + removal per case, which on a journalled file
              system shared by 16 processes costs more than everything else together. */
static int PIPE_RD = -1, RELAY_FD[2] = { -1, -1 }; static char PIPE_PREFIX[260], RELAY_FN[2][260], SETUP_FOR[200];   /* [0] recorded, [1] converted DAGs */
static void relay_setup(void) {
  if (!strcmp(SETUP_FOR, SCRATCH)) return;
  strcpy(SETUP_FOR, SCRATCH);
  if (PIPE_RD >= 0) close(PIPE_RD);
  for (int i = 0; i < 2; i++) if (RELAY_FD[i] >= 0) close(RELAY_FD[i]);
  char fn[270]; snprintf(PIPE_PREFIX, sizeof PIPE_PREFIX, "%s-pipe", SCRATCH); snprintf(fn, sizeof fn, "%s.dag", PIPE_PREFIX);
  unlink(fn); if (mkfifo(fn, 0644)) perror(fn);
  PIPE_RD = open(fn, O_RDONLY | O_NONBLOCK);
  /* two relay files: the recorded DAG stays mapped (privately, but a private mapping still sees later writes to pages
     it has not touched) while its conversions are written and read back */
  for (int i = 0; i < 2; i++) {
    snprintf(RELAY_FN[i], sizeof RELAY_FN[i], "%s-relay%d.dag", SCRATCH, i);
    RELAY_FD[i] = open(RELAY_FN[i], O_RDWR | O_CREAT | O_TRUNC, 0644);
  }
}
static void pipe_drain(void) { char junk[4096]; while (read(PIPE_RD, junk, sizeof junk) > 0) {} }
static size_t relay_collect(int which) {
  static char buf[1 << 17]; size_t n = 0; ssize_t x;
  while (n < sizeof buf && (x = read(PIPE_RD, buf + n, sizeof buf - n)) > 0) n += x;
  if (n && pwrite(RELAY_FD[which], buf, n, 0) != (ssize_t)n) return 0;
  return n;
}
/* have the library write G (gen = 0: the recorded graph through dr_dump(); gen = 1: G itself through dr_gen_pi_dag)
   and read it back; the result must be unread_dag()ed with *fszp */
static dr_pi_dag * through_file(dr_pi_dag * G, int gen, const char * which, const char * extra, size_t * fszp) {
  int direct = CASE.W == 1 || CASE.p->large;       /* a large DAG does not fit a pipe buffer */
  dr_options o = GS.opts; char fn[270]; dr_pi_dag * R;
  o.dag_file_yes = 1;
  if (direct) { o.dag_file_prefix = SCRATCH; snprintf(fn, sizeof fn, "%s.dag", SCRATCH); }
  else { relay_setup(); pipe_drain(); o.dag_file_prefix = PIPE_PREFIX; }
  dr_opts_init(&o);
  if (gen) dr_gen_pi_dag(G); else dr_dump_();
  if (direct) { R = roundtrip(G, fn, which, extra, fszp, 0); unlink(fn); }   /* the mapping outlives the name */
  else {
    size_t n = relay_collect(gen);
    if (!n) { char cls[100]; snprintf(cls, sizeof cls, "roundtrip:%s:no-file", which); found(cls, extra, "nothing was written"); *fszp = 0; return NULL; }
    R = roundtrip(G, RELAY_FN[gen], which, extra, fszp, n);
  }
  return R;
}

static const char * const AUX_NAMES[4] = { "cases whose DAG bytes equal an earlier setting's (not re-checked)", "distinct DAGs pushed through the file checks", "conversions", "converted DAGs written and read back" };
static unsigned long long SEEN[128]; static int NSEEN;
/* More than one file name: on the serial execution (W = 1) with the first timing, under every record-time setting
   (which names survive which contraction).  The string table does not depend on who ran what. */
static int component_skip(int nf, int oi) {
  (void)oi;
  if (nf > 1 && !(CASE.tmi == 0 && CASE.W == 1)) return 1;
  return 0;
}
/* converted DAGs go through a file when they come from the uncontracted recording */
static int convert_through_file(void) { return CASE.oi == 0; }

static void component_case(void) {
  char cls[100], extra[80];
  if (!GS.root) { found("roundtrip:no-root", NULL, "GS.root is null after dr_stop()"); return; }
  dr_pi_dag G0[1];
  dr_make_pi_dag(G0, GS.root, GS.start_clock);
  if (CASE.oi == 0) NSEEN = 0;
  unsigned long long h = pi_hash(G0);
  for (int i = 0; i < NSEEN; i++) if (SEEN[i] == h) { SLOT->aux[0]++; free_pi(G0); return; }
  if (NSEEN < 128) SEEN[NSEEN++] = h;
  SLOT->aux[1]++;

  size_t fsz;
  dr_pi_dag * G1 = through_file(G0, 0, "dumped", NULL, &fsz);
  if (!G1) { free_pi(G0); return; }
  if (CASE.verbose) {
    printf("dumped DAG: n=%ld m=%ld strings=%ld\n", G1->n, G1->m, G1->S->n);
    for (long i = 0; i < G1->n; i++) { const dr_pi_dag_node * x = &G1->T[i];
      printf("  T[%ld] %-11s w%-2d [%llu,%llu) t_1=%llu t_inf=%llu edges[%ld,%ld) ", i, dr_dag_node_kind_to_str(x->info.kind), x->info.worker, x->info.start.t, x->info.end.t, x->info.t_1, x->info.t_inf, x->edges_begin, x->edges_end);
      if (x->info.kind == dr_dag_node_kind_create_task) printf("child +%ld", x->child_offset); else if (x->info.kind >= dr_dag_node_kind_section) printf("sub [+%ld,+%ld)", x->subgraphs_begin_offset, x->subgraphs_end_offset);
      printf("  %s:%ld - %s:%ld\n", pi_str(G1, x->info.start.pos.file_idx), x->info.start.pos.line, pi_str(G1, x->info.end.pos.file_idx), x->info.end.pos.line); }
    for (long j = 0; j < G1->m; j++) printf("  E[%ld] %ld -> %ld %s\n", j, G1->E[j].u, G1->E[j].v, dr_dag_edge_kind_to_str(G1->E[j].kind));
  }
  if (validate(G1, "dumped", NULL)) {
    totals_t t1; pi_totals(G1, &t1);
    if (!t1.ok) found("structure:dumped:edge-cycle", NULL, "the explicit edges contain a cycle");
    /* the file against the execution (edge totals are C18's subject and are not repeated here) */
    const oracle_t * o = CASE.o;
    if (t1.work != o->work || t1.root_work != o->work) found("content:work", NULL, "work summed over the file's leaves = %ld, root t_1 = %ld, executed %ld", t1.work, t1.root_work, o->work);
    if (t1.ok && (t1.crit != o->crit || t1.root_crit != o->crit)) found("content:critical-path", NULL, "heaviest path along the file's edges = %ld, root t_inf = %ld, executed %ld", t1.crit, t1.root_crit, o->crit);
    for (int k = 0; k < 4; k++) if (t1.nodes[k] != o->nodes[k] || t1.root_nodes[k] != o->nodes[k]) found("content:node-count", NULL, "node kind %d: %ld over leaves, %ld in the root summary, executed %ld", k, t1.nodes[k], t1.root_nodes[k], o->nodes[k]);
    content(G1);
    chronological(G1, "dumped", NULL);
    /* conversion */
    unsigned long long seen2[20]; int nseen2 = 0;
    dr_options saved = GS.opts;
    for (int v = 0; v < NCONV; v++) {
      dr_options co = saved; co.collapse_max = CONV[v].cmax; co.uncollapse_min = CONV[v].umin; co.collapse_max_count = CONV[v].cc; co.shrink = 1;
      dr_opts_init(&co);
      char cm[24]; if (CONV[v].cmax == CM_INF) strcpy(cm, "2^60"); else snprintf(cm, sizeof cm, "%llu", CONV[v].cmax);
      snprintf(extra, sizeof extra, " V=cm%s,um%llu,cc%ld", cm, CONV[v].umin, CONV[v].cc);
      dr_pi_dag G2[1];
      dr_copy_pi_dag(G2, G1);
      SLOT->aux[2]++;
      /* a conversion whose output has the very bytes of its input, or of an earlier conversion of this DAG, has been judged already */
      unsigned long long h2 = pi_hash(G2); int dup = h2 == h;
      for (int i = 0; i < nseen2; i++) if (seen2[i] == h2) dup = 1;
      if (CASE.verbose) printf("converted%s: n=%ld m=%ld strings=%ld%s\n", extra, G2->n, G2->m, G2->S->n, dup ? "  (same bytes as before)" : "");
      if (dup) { free_pi(G2); continue; }
      seen2[nseen2++] = h2;
      if (validate(G2, "converted", extra)) {
	totals_t t2; pi_totals(G2, &t2);
	if (!t2.ok) found("structure:converted:edge-cycle", extra, "the explicit edges contain a cycle");
	if (t2.work != t1.work) found("shrink-totals:work", extra, "work over leaves = %ld after conversion, %ld before", t2.work, t1.work);
	if (t2.ok && t1.ok && t2.crit != t1.crit) found("shrink-totals:critical_path", extra, "heaviest path = %ld after conversion, %ld before", t2.crit, t1.crit);
	if (t2.root_work != t1.root_work || t2.root_crit != t1.root_crit) found("shrink-totals:root-summary", extra, "root t_1/t_inf = %ld/%ld after conversion, %ld/%ld before", t2.root_work, t2.root_crit, t1.root_work, t1.root_crit);
	static const char * const NKN[4] = { "create_task", "wait_tasks", "other", "end_task" };
	for (int k = 0; k < 4; k++) if (t2.nodes[k] != t1.nodes[k]) { snprintf(cls, sizeof cls, "shrink-totals:node:%s", NKN[k]); found(cls, extra, "%s nodes: %ld after conversion, %ld before", NKN[k], t2.nodes[k], t1.nodes[k]); }
	for (int k = 0; k < EK_MAX; k++) if (t2.edges[k] != t1.edges[k]) { snprintf(cls, sizeof cls, "shrink-totals:edge:%s", EKN[k]); found(cls, extra, "%s edges (explicit + summarised): %ld after conversion, %ld before", EKN[k], t2.edges[k], t1.edges[k]); }
	chronological(G2, "converted", extra);
	if (convert_through_file()) {
	  size_t fsz2;
	  dr_pi_dag * R2 = through_file(G2, 1, "converted", extra, &fsz2);
	  if (R2) unread_dag(R2, fsz2);
	  SLOT->aux[3]++;
	}
      }
      free_pi(G2);
    }
    dr_opts_init(&saved);
  }
  unread_dag(G1, fsz);
  free_pi(G0);
}

int main(int argc, char ** argv) {
  static const unsigned long long CM[3] = { 0, 5, CM_INF }, UM[2] = { 0, 5 }; static const long CC[3] = { 0, 3, 100 };
  for (int a = 0; a < 3; a++) for (int b = 0; b < 2; b++) for (int c = 0; c < 3; c++) CONV[NCONV++] = (conv_t){ CM[a], UM[b], CC[c] };
  /* everything below the root collapses (also subgraphs executed by several workers): the converted DAG's totals are the root's summary */
  CONV[NCONV++] = (conv_t){ 0, CM_INF, 0 }; CONV[NCONV++] = (conv_t){ CM_INF, CM_INF, 0 };
  WANT_STAT = 0; WANT_DAG = 1;
  return dag_main(argc, argv, "C19", "c19", "E3 seqmc (serial multi-worker simulator driving the real recorder; dump / read / validate / replay / convert of every recorded DAG)",
		  4, 4, "dump-read round trip, independent structural validation, chronological replay, conversion totals (20 conversion settings per distinct DAG)");
}
