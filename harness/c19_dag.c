#include "dag_sim.h"
static void component_case(void) {}
int main(int argc, char ** argv) { return dag_main(argc, argv, "C19", "c19", "E3", 1, 1, "stub"); }
