/* C10 (E1 part) --- thread-specific values follow the thread across workers and stay private to (thread, key). */
#include "hcommon.h"
typedef struct { int n, y, conc_create, W, K, wave2; } prog_t;
#define MAXP 64
static prog_t P[2][MAXP]; static int NP[2];
static void add(int tier, int n, int y, int cc, int W, int K) { if (NP[tier] < MAXP) { prog_t * p = &P[tier][NP[tier]++]; p->n = n; p->y = y; p->conc_create = cc; p->W = W; p->K = K; p->wave2 = 0; } }
static void build(void) {
  static int built; if (built) return; built = 1;
  for (int tier = 0; tier < 2; tier++) for (int W = 1; W <= (tier ? 3 : 2); W++) {
    int K = tier ? 3 : 2; if (W == 3) K = 2;
    add(tier, 2, 1, 0, W, K); add(tier, 2, 2, 0, W, 2); add(tier, 3, 1, 0, W, tier ? 2 : 1); add(tier, 2, 1, 1, W, K); add(tier, 3, 1, 1, W, tier ? 2 : 1);
    /* a second wave of threads on the recycled records of the first, started in every creation order: they start with no values */
    add(tier, 2, 1, 0, W, tier ? 2 : 1); P[tier][NP[tier] - 1].wave2 = 1;
    if (tier) { add(tier, 3, 0, 0, W, 1); P[tier][NP[tier] - 1].wave2 = 1; }
  }
}
static int nprogs(int tier) { build(); return NP[tier]; }
static void config(int tier, int prog, int * W, int * K) { build(); *W = P[tier][prog].W; *K = P[tier][prog].K; }
static void describe(int tier, int prog, char * b, size_t n) { build(); prog_t * p = &P[tier][prog]; snprintf(b, n, "%d threads set/get the same key with %d yields in between%s", p->n, p->y, p->conc_create ? ", each also creating/deleting keys concurrently" : p->wave2 ? "; then a second wave (default, parent-first, attr=NULL) on the recycled records reads before it stores" : ""); }
static prog_t * cur; static myth_key_t key, key2, key3; static volatile int own_keys[4], k3_wrong, k3_calls;
/* key3 has a destructor; what the ending thread stored under the other (destructor-less, lower-numbered) keys is still readable in it */
static void k3_dtor(void * v) { if (!v) return;   /* native keys: the destructor also runs for a thread that stored nothing under the key (C11's subject, not counted here) */
  long i = (long)v - 0x400; k3_calls++; if (i < 0 || i > 3) { k3_wrong++; return; }
  if (myth_getspecific(key2) != (void *)(0x200 + i)) k3_wrong++; if (myth_getspecific(key) != (i ? (void *)(0x100 + i) : NULL)) k3_wrong++; }
static void * body(void * a) {
  long i = (long)a;
  MV_CHECK(myth_getspecific(key) == NULL, "a thread that never stored a value reads %p", myth_getspecific(key));
  int w0 = mv_worker();
  if (i != 0) myth_setspecific(key, (void *)(0x100 + i));   /* thread 0 never stores under `key` */
  myth_setspecific(key2, (void *)(0x200 + i));
  myth_setspecific(key3, (void *)(0x400 + i));
  if (cur->conc_create) {
    myth_key_t k; int r = myth_key_create(&k, 0); MV_CHECK(r == 0, "key_create failed");
    MV_CHECK(k != key && k != key2, "key_create handed out live key %d again", (int)k);
    mv_point(&own_keys[i], sizeof(int)); own_keys[i] = k + 1;
    for (int j = 0; j < cur->n; j++) if (j != i && own_keys[j]) MV_CHECK(own_keys[j] != k + 1, "two threads were handed the same key %d while both live", (int)k);
    myth_setspecific(k, (void *)(0x300 + i));
    for (int y = 0; y < cur->y; y++) myth_yield();
    MV_CHECK(myth_getspecific(k) == (void *)(0x300 + i), "value under a freshly created key changed");
    mv_point(&own_keys[i], sizeof(int)); own_keys[i] = 0;
    MV_CHECK(myth_key_delete(k) == 0, "key_delete of an own live key failed");
  } else for (int y = 0; y < cur->y; y++) myth_yield();
  if (mv_worker() != w0) mv_cover(0);
  void * want = i ? (void *)(0x100 + i) : NULL;
  MV_CHECK(myth_getspecific(key) == want, "thread %ld reads %p under the shared key, stored %p", i, myth_getspecific(key), want);
  MV_CHECK(myth_getspecific(key2) == (void *)(0x200 + i), "thread %ld reads %p under the second key", i, myth_getspecific(key2));
  return 0;
}
/* second wave: a new thread, whatever record it is built on and however it is started, has no value under any key */
static void * body2(void * a) {
  long i = (long)a;
  void * v1 = myth_getspecific(key), * v2 = myth_getspecific(key2), * v3 = myth_getspecific(key3);
  MV_CHECK(v1 == NULL && v2 == NULL && v3 == NULL, "a new thread (second wave, #%ld) that never stored a value reads %p / %p / %p under the three keys: values of an earlier thread", i, v1, v2, v3);
  myth_setspecific(key2, (void *)(0x500 + i));
  myth_yield();
  MV_CHECK(myth_getspecific(key2) == (void *)(0x500 + i) && myth_getspecific(key) == NULL, "second-wave thread %ld reads %p / %p", i, myth_getspecific(key2), myth_getspecific(key));
  return 0;
}
static void run(int tier, int prog) {
  build(); cur = &P[tier][prog];
  mv_start(cur->W);
  MV_CHECK(myth_key_create(&key, 0) == 0 && myth_key_create(&key2, 0) == 0 && key != key2, "key_create");
  MV_CHECK(myth_key_create(&key3, k3_dtor) == 0 && key3 != key && key3 != key2, "key_create");
  myth_setspecific(key, (void *)0x999);
  myth_thread_t th[4];
  for (long i = 0; i < cur->n; i++) th[i] = myth_create(body, (void *)i);
  for (int i = 0; i < cur->n; i++) myth_join(th[i], 0);
  if (cur->wave2) {
    static const int v2[3] = { V_EX_PARENT_FIRST, V_CREATE, V_EX_NULLATTR };
    for (long i = 0; i < cur->n; i++) MV_CHECK(h_spawn(v2[i % 3], &th[i], body2, (void *)i) == 0, "creation of a second-wave thread failed");
    for (int i = 0; i < cur->n; i++) myth_join(th[i], 0);
  }
  MV_CHECK(myth_getspecific(key) == (void *)0x999, "main's value was changed by other threads' stores");
  MV_CHECK(k3_calls == cur->n && k3_wrong == 0, "the destructor of the third key ran %d time(s) for %d threads; in %d of its look-ups the ending thread's values under the other keys were gone or changed", k3_calls, cur->n, k3_wrong);
  MV_CHECK(myth_setspecific(1024, (void *)1) == EINVAL && myth_getspecific(-1) == NULL, "out-of-range key not rejected");
  mv_obs("ok on w%d", mv_worker());
  mv_finish();
}
static const char * const cover_names[] = { "thread_migrated_between_set_and_get", 0 };
static uint64_t cover_required(int tier) { (void)tier; return 1; }
mc_harness_t mc_harness = { "C10", "migrate", nprogs, describe, config, run, cover_names, cover_required };
