/* C07 --- join counter: waiters released exactly when the N-th decrement happens. */
#include "hcommon.h"
/* order: a string over d (create a thread that decrements) and w (create a waiter); main waits at the end (late waiter) */
typedef struct { char order[8]; int N, W, K; } prog_t;
#define MAXP 400
static prog_t P[2][MAXP]; static int NP[2];
static void add(int tier, const char * o, int W, int K) {
  if (NP[tier] >= MAXP) return; prog_t * p = &P[tier][NP[tier]++]; strcpy(p->order, o); p->W = W; p->K = K; p->N = 0;
  for (const char * s = o; *s; s++) if (*s == 'd') p->N++;
}
static void build(void) {
  static int built; if (built) return; built = 1;
  static const char * const O[] = { "", "d", "w", "wd", "dw", "dd", "wdd", "dwd", "ddw", "wwd", "wdw", "dww", "wwdd", "wdwd", "dwwd", "wddw", "ddd", "wddd", "dwdd", "ddwd", "wwddd", "wdwdd", 0 };
  for (int tier = 0; tier < 2; tier++) for (int i = 0; O[i]; i++) for (int W = 1; W <= (tier ? 3 : 2); W++) {
    int len = strlen(O[i]); int K = tier ? 3 : 2;
    if (len >= 4) K = tier ? 2 : 1;
    if (len == 3 && !tier && W == 2) K = 2;
    if (W == 3) K = len >= 4 ? 1 : 2;
    if (!tier && len >= 5) continue;
    add(tier, O[i], W, K);
  }
  /* "#": counters of different sizes initialised by different threads at the same time (their initialisation shares nothing) */
  for (int tier = 0; tier < 2; tier++) add(tier, "#", 2, tier ? 2 : 1);
}
static int nprogs(int tier) { build(); return NP[tier]; }
static void config(int tier, int prog, int * W, int * K) { build(); *W = P[tier][prog].W; *K = P[tier][prog].K; }
static void describe(int tier, int prog, char * b, size_t n) { build(); prog_t * p = &P[tier][prog]; if (p->order[0] == '#') snprintf(b, n, "join counters for 1000 and for 1 decrements initialised by two threads at the same time"); else snprintf(b, n, "join-counter N=%d creation order '%s' + late wait by main", p->N, p->order); }
static prog_t * cur; static myth_join_counter_t jc;
static volatile int dec_started, dec_finished, released;
static void * decr(void * a) { (void)a; mv_point(&dec_started, sizeof(int)); dec_started++; myth_join_counter_dec(&jc); dec_finished++; return 0; }
static void * waiter(void * a) {
  (void)a;
  int before = dec_started;
  myth_join_counter_wait(&jc);
  MV_CHECK(dec_started == cur->N, "join_counter_wait returned after only %d of %d decrements had begun", dec_started, cur->N);
  if (before < cur->N) mv_cover(0); else mv_cover(1);
  released++;
  return 0;
}
/* concurrent initialisation of independent counters */
static myth_join_counter_t ci[3]; static volatile int ci_ready, ci_started;
static void * ci_big(void * a) {
  (void)a;
  h_join_counter_init(&ci[0], 0, 1000);
  mv_point(&ci_ready, sizeof(int)); ci_ready = 1;
  while (!ci_started) mv_wait_until_changed(&ci_started, sizeof(int));
  h_join_counter_init(&ci[1], 1, 1000);                         /* while the other thread is inside its own initialisation */
  for (int k = 0; k < 2; k++) MV_CHECK(ci[k].n_threads_bits >= 10, "a counter initialised for 1000 decrements got a %d-bit field", (int)ci[k].n_threads_bits);
  return 0;
}
static void * ci_small(void * a) {
  (void)a;
  while (!ci_ready) mv_wait_until_changed(&ci_ready, sizeof(int));
  mv_point(&ci_started, sizeof(int)); ci_started = 1;
  h_join_counter_init(&ci[2], 0, 1);
  myth_join_counter_dec(&ci[2]); myth_join_counter_wait(&ci[2]);
  return 0;
}
static void run_concurrent_init(void) {
  myth_thread_t a = myth_create(ci_big, 0), b = myth_create(ci_small, 0);
  myth_join(a, 0); myth_join(b, 0);
  mv_obs("concurrent init ok");
  mv_finish();
}
static void run(int tier, int prog) {
  build(); cur = &P[tier][prog];
  mv_start(cur->W);
  if (cur->order[0] == '#') { run_concurrent_init(); return; }
  h_maybe_custom_steal(prog, cur->W);
  h_join_counter_init(&jc, prog & 1, cur->N);
  static h_sentinel_t sent; h_sentinel_start(&sent, 7, prog);
  static h_bystander_t byst; h_bystander_start(&byst, prog, cur->W);
  myth_thread_t th[8]; int nt = 0, nw = 0;
  for (const char * s = cur->order; *s; s++) { if (*s == 'd') th[nt++] = myth_create(decr, 0); else { th[nt++] = myth_create(waiter, 0); nw++; } }
  waiter(0);   /* main: possibly late */
  for (int i = 0; i < nt; i++) myth_join(th[i], 0);
  MV_CHECK(released == nw + 1, "%d of %d waiters released", released, nw + 1);
  MV_CHECK(jc.sleep_q->head == 0, "a waiter is still on the join counter's sleep queue");
  myth_join_counter_wait(&jc);  /* afterwards: returns immediately */
  mv_obs("N=%d released=%d", cur->N, released);
  h_bystander_finish(&byst);
  h_sentinel_finish(&sent);
  h_join_counter_epilogue(&jc, prog & 1);
  mv_finish();
}
static const char * const cover_names[] = { "waiter_arrived_before_last_dec", "waiter_arrived_after_last_dec", 0 };
static uint64_t cover_required(int tier) { (void)tier; return 3; }
mc_harness_t mc_harness = { "C07", "joincounter", nprogs, describe, config, run, cover_names, cover_required };
