/* C06 --- barrier: nobody passes round k before all N arrived; exactly one serial thread per round; reusable at once. */
#include "hcommon.h"
typedef struct { int N, rounds, main_in, W, K; } prog_t;
#define MAXP 200
static prog_t P[2][MAXP]; static int NP[2];
static void add(int tier, int N, int r, int mi, int W, int K) { if (NP[tier] < MAXP) { prog_t * p = &P[tier][NP[tier]++]; p->N = N; p->rounds = r; p->main_in = mi; p->W = W; p->K = K; } }
static void build(void) {
  static int built; if (built) return; built = 1;
  for (int tier = 0; tier < 2; tier++) {
    int K = tier ? 3 : 2;
    for (int W = 1; W <= (tier ? 3 : 2); W++) for (int N = 1; N <= 3; N++) for (int r = 1; r <= (tier ? 3 : 2); r++) for (int mi = 0; mi < 2; mi++) {
      if (N == 1 && mi == 0 && r > 1) continue;
      int k = K;
      if (N == 3) k = (r == 1 ? 2 : 1);
      if (N == 2 && r >= 2 && W > 1) k = 2;
      if (W == 3) k = (N == 3 && r > 1) ? 1 : 2;
      if (!tier && N == 3 && r == 2) k = 1;
      if (tier && N == 3 && r == 3) k = 1;
      if (tier && N == 3 && r == 1 && W == 2) k = 3;
      add(tier, N, r, mi, W, k);
    }
  }
}
static int nprogs(int tier) { build(); return NP[tier]; }
static void config(int tier, int prog, int * W, int * K) { build(); *W = P[tier][prog].W; *K = P[tier][prog].K; }
static void describe(int tier, int prog, char * b, size_t n) { build(); prog_t * p = &P[tier][prog]; snprintf(b, n, "barrier N=%d rounds=%d main-participates=%d", p->N, p->rounds, p->main_in); }

static prog_t * cur; static myth_barrier_t bar;
static volatile int arrived[4], serial[4], returned[4];
static void * participant(void * a) {
  int me = (int)(long)a;
  for (int r = 0; r < cur->rounds; r++) {
    mv_point(&arrived[r], sizeof(int));
    arrived[r]++;
    int ret = myth_barrier_wait(&bar);
    MV_CHECK(ret == 0 || ret == MYTH_BARRIER_SERIAL_THREAD, "barrier_wait returned %d", ret);
    MV_CHECK(arrived[r] == cur->N, "participant %d passed round %d after only %d of %d arrivals", me, r, arrived[r], cur->N);
    if (ret == MYTH_BARRIER_SERIAL_THREAD) serial[r]++;
    returned[r]++;
    if (r + 1 < cur->rounds && arrived[r + 1] > 0) mv_cover(0);   /* somebody raced ahead into the next round */
  }
  return 0;
}
static void run(int tier, int prog) {
  build(); cur = &P[tier][prog];
  mv_start(cur->W);
  h_maybe_custom_steal(prog, cur->W);
  h_barrier_init(&bar, prog & 1, cur->N);
  static h_sentinel_t sent; h_sentinel_start(&sent, 6, prog);
  static h_bystander_t byst; h_bystander_start(&byst, (cur->W == 2 && cur->N == 2) ? 1 : prog, cur->W);   /* every two-party barrier on two workers has a bystander */
  myth_thread_t th[4]; int nt = 0;
  int nc = cur->main_in ? cur->N - 1 : cur->N;
  for (int i = 0; i < nc; i++) th[nt++] = myth_create(participant, (void *)(long)i);
  if (cur->main_in) participant((void *)(long)nc);
  for (int i = 0; i < nt; i++) myth_join(th[i], 0);
  for (int r = 0; r < cur->rounds; r++) {
    MV_CHECK(returned[r] == cur->N, "round %d: %d of %d participants returned", r, returned[r], cur->N);
    MV_CHECK(serial[r] == 1, "round %d: %d participants got the serial-thread indicator", r, serial[r]);
  }
  MV_CHECK(bar.state == 0, "barrier count is %ld after the last round", (long)bar.state);
  mv_obs("N=%d r=%d ok", cur->N, cur->rounds);
  h_bystander_finish(&byst);
  h_sentinel_finish(&sent);
  h_barrier_epilogue(&bar, prog & 1);
  mv_finish();
}
static const char * const cover_names[] = { "raced_ahead_into_next_round", 0 };
static uint64_t cover_required(int tier) { (void)tier; return 1; }
mc_harness_t mc_harness = { "C06", "barrier", nprogs, describe, config, run, cover_names, cover_required };
