/* C01 --- every created thread runs exactly once; join delivers its result and its writes.
 *
 * Programs: spawn trees with <= 3 created threads (single, chain, fan, mixed), every creation
 * variant of the public API, both join orders, optional yields, return vs myth_exit from nested
 * frames.  Oracle: per-tag invocation count == 1 with the supplied argument; joined value == value
 * returned / passed to myth_exit; a 64-byte buffer written by the child is read back by the joiner;
 * join returned => body finished.
 */
#include "hcommon.h"

enum { SH_SINGLE, SH_CHAIN2, SH_FAN2, SH_CHAIN3, SH_FAN3, SH_MIXED3, SH_N };
static const char * const sh_name[] = { "single", "chain2", "fan2", "chain3", "fan3", "mixed3" };
static const int sh_nthreads[] = { 1, 2, 2, 3, 3, 3 };
/* parent of thread i (-1 = main) per shape */
static const int sh_parent[SH_N][3] = { {-1,-1,-1}, {-1,0,-1}, {-1,-1,-1}, {-1,0,1}, {-1,-1,-1}, {-1,-1,0} };

typedef struct { int shape, var[3], rev, yield_before_join, exit_style[3]; int W, K; int leaf_yield; } prog_t;
#define MAXP 2000
static prog_t P[2][MAXP]; static int NP[2];

static int g_leaf_yield;   /* programs added while this is set: a thread without children yields once, so that its parent can be found blocked in its own join */
static void add(int tier, int shape, int v0, int v1, int v2, int rev, int yb, int e0, int e1, int e2, int W, int K) {
  if (NP[tier] >= MAXP) return;
  prog_t * p = &P[tier][NP[tier]++];
  p->shape = shape; p->var[0] = v0; p->var[1] = v1; p->var[2] = v2; p->rev = rev; p->yield_before_join = yb;
  p->exit_style[0] = e0; p->exit_style[1] = e1; p->exit_style[2] = e2; p->W = W; p->K = K; p->leaf_yield = g_leaf_yield;
}

static void build(void) {
  static int built; if (built) return; built = 1;
  for (int tier = 0; tier < 2; tier++) {
    int K = tier ? 3 : 2;
    /* single: every variant x exit style x yield, W = 1, 2 (3 in thorough) */
    for (int v = 0; v < V_N; v++) for (int e = 0; e < 2; e++) for (int yb = 0; yb < 2; yb++)
      for (int W = 1; W <= (tier ? 3 : 2); W++) {
	if (!tier && yb && e) continue;
	add(tier, SH_SINGLE, v, 0, 0, 0, yb, e, 0, 0, W, W == 3 ? 2 : K);
      }
    /* two threads: chain and fan, same variant on both + mixed pairs, both join orders */
    for (int sh = SH_CHAIN2; sh <= SH_FAN2; sh++) for (int v = 0; v < V_N; v++) for (int rev = 0; rev < 2; rev++) {
      if (sh == SH_CHAIN2 && rev) continue;
      int v1 = (v + 3) % V_N;
      add(tier, sh, v, v, 0, rev, 0, 0, 1, 0, 2, 2);
      add(tier, sh, v, v1, 0, rev, rev, 1, 0, 0, 2, 2);
      if (tier) { add(tier, sh, v, v1, 0, rev, 1, 0, 0, 0, 1, K); add(tier, sh, v, v, 0, rev, 0, 1, 1, 0, 3, 2); add(tier, sh, v1, v, 0, rev, 0, 0, 0, 0, 2, K); }
    }
    /* a joiner that is itself joined while it is blocked: chains whose last thread yields, so that on one worker the thread in the middle is
       suspended in its join when the thread above it joins it; every variant for the middle thread, both creation orders above it */
    g_leaf_yield = 1;
    for (int v = 0; v < V_N; v++) for (int W = 1; W <= 2; W++) {
      add(tier, SH_CHAIN2, v, (v + 3) % V_N, 0, 0, 0, 0, 0, 0, W, W == 1 ? K : 2);
      if (v % 3 == 0 || tier) add(tier, SH_CHAIN3, v, v, (v + 1) % V_N, 0, W == 1, 0, 1, 0, W, tier ? 2 : 1);
      if (v % 3 == 1 || tier) add(tier, SH_FAN2, v, (v + 2) % V_N, 0, 1, 1, 0, 0, 0, W, tier ? 2 : 1);
    }
    g_leaf_yield = 0;
    /* three threads: one representative assignment per variant rotation */
    for (int sh = SH_CHAIN3; sh <= SH_MIXED3; sh++) for (int v = 0; v < V_N; v += (tier ? 1 : 3)) {
      add(tier, sh, v, (v + 1) % V_N, (v + 4) % V_N, v & 1, 0, 0, v & 1, 1, 2, tier ? 2 : 1);
      if (tier) add(tier, sh, v, (v + 2) % V_N, (v + 5) % V_N, 1 - (v & 1), 1, 1, 0, 0, 3, 1);
    }
  }
}

static int nprogs(int tier) { build(); return NP[tier]; }
static void config(int tier, int prog, int * W, int * K) { build(); *W = P[tier][prog].W; *K = P[tier][prog].K; }
static void describe(int tier, int prog, char * b, size_t n) {
  build(); prog_t * p = &P[tier][prog];
  int o = snprintf(b, n, "%s", sh_name[p->shape]);
  for (int i = 0; i < sh_nthreads[p->shape]; i++) o += snprintf(b + o, n - o, " t%d=%s/%s", i, v_name[p->var[i]], p->exit_style[i] ? "exit" : "return");
  snprintf(b + o, n - o, " join=%s%s", p->rev ? "reverse" : "inorder", p->yield_before_join ? " yield-before-join" : ""); o = strlen(b); if (p->leaf_yield) snprintf(b + o, n - o, " leaves-yield");
}

/* ---- the program under test */
static prog_t * cur;
static volatile int invoked[3], done[3], body_worker[3];
static myth_thread_t tid[3];
static volatile int flag_nullid[3];
static unsigned char buf[3][64];
static void * body(void * a);

static void spawn_one(int i) {
  int wbefore = mv_worker();
  int r = h_spawn(cur->var[i], &tid[i], body, (void *)(long)(100 + i));
  MV_CHECK(r == 0, "creation of t%d failed with %d", i, r);
  if (mv_worker() != wbefore) mv_cover(3);
  if (v_parent_first(cur->var[i])) mv_cover(4);
  if (v_stack(cur->var[i])) mv_cover(6);
}

static void reap_one(int i) {
  void * r = (void *)-1L;
  int finished_before = done[i];
  if (cur->var[i] == V_EX_NULLID) {
    /* no id: wait for the body's completion flag */
    while (!flag_nullid[i]) mv_wait_until_changed(&flag_nullid[i], sizeof(int));
    MV_CHECK(invoked[i] == 1, "t%d (created with id=NULL) invoked %d times", i, invoked[i]);
    mv_cover(8);
    return;
  }
  int wb = mv_worker();
  int rc = myth_join(tid[i], &r);
  MV_CHECK(rc == 0, "join of t%d returned %d", i, rc);
  if (mv_worker() != wb) mv_cover(7);
  mv_cover(finished_before ? 0 : 1);
  MV_CHECK(done[i] == 1, "join of t%d returned before its function finished (done=%d)", i, done[i]);
  MV_CHECK(invoked[i] == 1, "t%d invoked %d times", i, invoked[i]);
  MV_CHECK((long)r == 1000 + i, "join of t%d delivered %ld instead of %d", i, (long)r, 1000 + i);
  for (int k = 0; k < 64; k++) MV_CHECK(buf[i][k] == (unsigned char)(i * 64 + k + 1), "joiner does not see byte %d written by t%d", k, i);
}

static void children_of(int me) {
  int n = sh_nthreads[cur->shape], kids[3], nk = 0;
  for (int i = 0; i < n; i++) if (sh_parent[cur->shape][i] == me) kids[nk++] = i;
  for (int k = 0; k < nk; k++) spawn_one(kids[k]);
  if (cur->yield_before_join && nk) myth_yield();
  for (int k = 0; k < nk; k++) reap_one(cur->rev ? kids[nk - 1 - k] : kids[k]);
}

static void * body(void * a) {
  int i = (int)(long)a - 100;
  if (i < 0 || i > 2) mv_fail("thread function received argument %ld that was never supplied", (long)a);
  invoked[i]++;
  body_worker[i] = mv_worker();
  for (int k = 0; k < 64; k++) buf[i][k] = (unsigned char)(i * 64 + k + 1);
  if (cur->leaf_yield) { int leaf = 1; for (int k = 0; k < sh_nthreads[cur->shape]; k++) if (sh_parent[cur->shape][k] == i) leaf = 0; if (leaf) myth_yield(); }
  int hinted = cur->var[i] == V_EX_HINT || cur->var[i] == V_EX_HINT_PF;
  if (hinted) h_check_hint();
  children_of(i);
  if (hinted) h_check_hint();     /* the thread's own frames and its switches must not have touched its custom data */
  done[i] = 1;
  if (cur->var[i] == V_EX_NULLID) { mv_point(&flag_nullid[i], sizeof(int)); flag_nullid[i] = 1; }
  if (cur->exit_style[i]) { mv_cover(5); h_exit_l1((void *)(long)(1000 + i)); mv_fail("myth_exit returned"); }
  return (void *)(long)(1000 + i);
}

static void run(int tier, int prog) {
  build(); cur = &P[tier][prog];
  mv_start(cur->W);
  int w0 = mv_worker();
  children_of(-1);
  int n = sh_nthreads[cur->shape];
  for (int i = 0; i < n; i++) {
    MV_CHECK(invoked[i] == 1, "t%d invoked %d times at the end", i, invoked[i]);
    if (body_worker[i] != w0) mv_cover(2);
  }
  mv_obs("main ends on w%d; bodies on", mv_worker());
  for (int i = 0; i < n; i++) mv_obs("w%d", body_worker[i]);
  mv_finish();
}

static const char * const cover_names[] = { "join_after_finish", "join_before_finish", "body_on_other_worker", "creator_continuation_stolen",
  "parent_first", "exit_from_nested_frames", "custom_stack", "joiner_resumed_on_other_worker", "null_id", 0 };
static uint64_t cover_required(int tier) { (void)tier; return 0x1ff; }
mc_harness_t mc_harness = { "C01", "forkjoin", nprogs, describe, config, run, cover_names, cover_required };
