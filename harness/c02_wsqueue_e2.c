/* C02 (E2 part) --- the real run-queue code (myth_wsqueue_func.h and the myth_wsapi_runqueue_* functions of
 * myth_if_native.c) explored at memory-access granularity under SC and x86-TSO.
 * This translation unit is compiled with -fsanitize=thread (instrumentation only). */
#include <string.h>
static void * e2_memmove(void * d, const void * s, unsigned long n);
#define memmove(d, s, n) e2_memmove((d), (s), (n))
#include "myth_if_native.c"
#undef memmove
#include "unitmc.h"
#include "seqmc.h"
#include <sys/wait.h>
#include <sys/mman.h>

/* element-wise, so that every word goes through the instrumented loads/stores */
static void * e2_memmove(void * d, const void * s, unsigned long n) {
  void ** dd = d; void * const * ss = s; unsigned long k = n / sizeof(void *);
  if ((char *)d < (const char *)s) { for (unsigned long i = 0; i < k; i++) dd[i] = ss[i]; }
  else { for (unsigned long i = k; i > 0; i--) dd[i - 1] = ss[i - 1]; }
  return d;
}

#define MAXCAP 16
typedef struct { myth_running_env env; myth_thread_t slots[MAXCAP]; } region_t;
static struct myth_thread dummies[64];
static int CAP; static const char * PROLOGUE; static const char * PROG[U2_MAXP]; static int NPART;

static long tag_of(myth_thread_t t) { return t ? (long)(t - dummies) : 999; }

static void q_setup(region_t * r) {
  myth_thread_queue_t q = &r->env.runnable_q;
  memset(r, 0, sizeof *r);
  r->env.rank = 0;
  myth_wsqueue_lock_init(&q->lock);
  q->size = CAP; q->ptr = r->slots;
  q->base = q->size / 2; q->top = q->base;
}
static int next_tag[U2_MAXP + 1];
static void init(void * region) {
  region_t * r = region; q_setup(r);
  int t = 0;
  for (const char * s = PROLOGUE; *s; s++) {
    if (*s == 'u') myth_queue_push(&r->env.runnable_q, &dummies[t++]);
    else if (*s == 't') myth_queue_put(&r->env.runnable_q, &dummies[t++]);
    else if (*s == 'o') myth_queue_pop(&r->env.runnable_q);
    else if (*s == 'k') myth_queue_take(&r->env.runnable_q);
  }
}
static void bind_env(void * region, int me) { (void)me; g_envs = &((region_t *)region)->env; g_envs_sz = 1; g_attr.n_workers = 1; }

static int accept_fn(myth_thread_t th, void * u) { (void)th; (void)u; return 1; }
static int decline_fn(myth_thread_t th, void * u) { (void)th; (void)u; return 0; }

static void body(void * region, int me) {
  region_t * r = region; myth_thread_queue_t q = &r->env.runnable_q;
  int tag = 8 * (me + 1);
  for (const char * s = PROG[me]; *s; s++) {
    switch (*s) {
    case 'u': myth_queue_push(q, &dummies[tag]); u2_note(me, 1000 + tag); tag++; break;
    case 't': myth_queue_put(q, &dummies[tag]); u2_note(me, 1000 + tag); tag++; break;
    case 'o': u2_note(me, 2000 + tag_of(myth_queue_pop(q))); break;
    case 'k': u2_note(me, 2000 + tag_of(myth_queue_take(q))); break;
    case 'a': u2_note(me, 2000 + tag_of(myth_wsapi_runqueue_take(0, accept_fn, 0))); break;
    case 'd': { myth_thread_t x = myth_wsapi_runqueue_take(0, decline_fn, 0); if (x) u2_fail("take with a declining decision function returned a thread"); u2_note(me, 2999); break; }
    case 'e': { size_t sz = 0; u2_note(me, 3000 + tag_of(myth_wsapi_runqueue_peek(0, 0, &sz))); break; }
    case 's': if (myth_queue_trypass(q, &dummies[tag])) { u2_note(me, 1000 + tag); } else u2_note(me, 1999); tag++; break;
    }
  }
}

static char omsg[300];
static const char * oracle(void * region) {
  region_t * r = region; myth_thread_queue_t q = &r->env.runnable_q;
  int ins[64] = {0}, out[64] = {0};
  int t = 0; int pro_pop = 0;
  /* prologue effects are already in the image: recompute what it inserted */
  for (const char * s = PROLOGUE; *s; s++) { if (*s == 'u' || *s == 't') ins[t++]++; else pro_pop++; }
  for (int p = 0; p < NPART; p++) for (int i = 0; i < u2_nnoted(p); i++) {
    long v = u2_noted(p, i);
    if (v >= 1000 && v < 1999) ins[v - 1000]++;
    else if (v >= 2000 && v < 2999) out[v - 2000]++;
    else if (v >= 3000 && v < 3999) { /* peek: must be something that was ever inserted */ }
  }
  int top = q->top, base = q->base;
  if (top < base) { snprintf(omsg, sizeof omsg, "queue indices crossed at quiescence: base=%d top=%d", base, top); return omsg; }
  if (base < 0 || top > q->size) { snprintf(omsg, sizeof omsg, "queue indices out of range: base=%d top=%d size=%d", base, top, q->size); return omsg; }
  int in_q[64] = {0};
  myth_thread_t * slots = (myth_thread_t *)((char *)region + offsetof(region_t, slots));
  for (int i = base; i < top; i++) { long g = tag_of(slots[i]); if (g < 0 || g >= 64) { snprintf(omsg, sizeof omsg, "slot %d holds garbage at quiescence", i); return omsg; } in_q[g]++; }
  int npop = pro_pop;
  for (int g = 0; g < 64; g++) {
    /* prologue pops removed prologue items: which ones is determined by the sequential prologue; treat them as removed */
    if (out[g] + in_q[g] > ins[g]) { snprintf(omsg, sizeof omsg, "thread %d was inserted %d time(s) but handed out %d time(s) and is %d time(s) still queued: DUPLICATED", g, ins[g], out[g], in_q[g]); return omsg; }
    if (out[g] + in_q[g] < ins[g]) { if (npop > 0) { npop--; continue; } snprintf(omsg, sizeof omsg, "thread %d was inserted but neither handed out nor still queued: LOST", g); return omsg; }
  }
  for (int p = 0; p < NPART; p++) for (int i = 0; i < u2_nnoted(p); i++) { long v = u2_noted(p, i); if (v >= 3000 && v < 3999) { long g = v - 3000; if (g >= 64 || !ins[g]) { snprintf(omsg, sizeof omsg, "peek returned a thread that was never in the queue"); return omsg; } } }
  return NULL;
}

/* ------------------------------------------------------------------ configuration enumeration */
typedef struct { int cap; const char * pro; const char * own; const char * th1; const char * th2; int mm; } conf_t;
static conf_t * CONFS; static int NCONF;
static int inserts(const char * s) { int n = 0; if (s) for (; *s; s++) if (*s == 'u' || *s == 't' || *s == 's') n++; return n; }
/* queue growth is unimplemented in the library (overflow is a documented fatal error): only histories within capacity */
static void addconf(conf_t cf) { if (inserts(cf.pro) + inserts(cf.own) + inserts(cf.th1) + inserts(cf.th2) <= cf.cap) CONFS[NCONF++] = cf; }
static char * SEQS_O[400]; static int NSO; static char * SEQS_T[400]; static int NST;
static void gen(char ** out, int * n, const char * alpha, int maxlen) {
  char buf[8]; int idx[8];
  for (int len = 1; len <= maxlen; len++) {
    memset(idx, 0, sizeof idx);
    for (;;) {
      for (int i = 0; i < len; i++) buf[i] = alpha[idx[i]]; buf[len] = 0;
      out[(*n)++] = strdup(buf);
      int k = len - 1; while (k >= 0 && alpha[++idx[k]] == 0) { idx[k] = 0; k--; }
      if (k < 0) break;
    }
  }
}
static void build_confs(int tier) {
  gen(SEQS_O, &NSO, "uot", tier ? 3 : 2);
  gen(SEQS_T, &NST, "kades", tier ? 2 : 1);
  static const char * pro4[] = { "", "u", "uu", "ut", "tt", "uuo", 0 };        /* cap 4: 'uu' reaches top==size, 'tt' reaches base==0 */
  static const char * pro8[] = { "", "uuuu", "tttt", "uut", 0 };
  CONFS = malloc(sizeof(conf_t) * 400000);
  for (int mm = 0; mm < 2; mm++) {
    for (int c = 0; c < (tier ? 2 : 1); c++) {
      const char ** pro = c ? pro8 : pro4;
      for (int a = 0; pro[a]; a++) for (int o = 0; o < NSO; o++) for (int t = 0; t < NST; t++) {
	conf_t cf = { c ? 8 : 4, pro[a], SEQS_O[o], SEQS_T[t], 0, mm };
	addconf(cf);
      }
    }
    /* the owner's lock-free pop path needs >= 3 queued threads, and a thief can only collide with it after taking
       all the others: three items, three takes */
    {
      static const char * pro3[] = { "uuu", "tuu", "ttu", 0 };
      static const char * own3[] = { "o", "oo", "ou", "uo", 0 };
      static const char * th3[][2] = { {"kkk", 0}, {"aaa", 0}, {"kak", 0}, {"kk", "k"}, {"ka", "a"}, {"k", "kk"}, {"kde", "k"}, {0, 0} };
      for (int c = 0; c < 2; c++) for (int a = 0; pro3[a]; a++) for (int o = 0; own3[o]; o++) for (int t = 0; th3[t][0]; t++) {
	if (!tier && (c == 1) && (t > 3 || o > 1)) continue;
	conf_t cf = { c ? 8 : 4, pro3[a], own3[o], th3[t][0], th3[t][1], mm };
	addconf(cf);
      }
    }
    /* two thieves: every pair of single thief operations against owner sequences of length <= 2 */
    for (int a = 0; pro4[a]; a++) for (int o = 0; o < NSO; o++) {
      if (strlen(SEQS_O[o]) > (tier ? 2 : 1)) continue;
      for (int t = 0; t < 5; t++) for (int t2 = t; t2 < 5; t2++) {
	conf_t cf = { 4, pro4[a], SEQS_O[o], SEQS_T[t], SEQS_T[t2], mm };
	addconf(cf);
      }
    }
  }
}

typedef struct { long states, transitions, terminals, configs, maxdepth; int nfound; char found[16][1200]; char fkey[16][200]; long capped; } shared_t;

#include <sys/personality.h>
int main(int argc, char ** argv) {
  /* fixed address-space layout: state counts are then reproducible run to run */
  if (!getenv("U2_NOASLR")) { setenv("U2_NOASLR", "1", 1); if (personality(ADDR_NO_RANDOMIZE) != -1) execv("/proc/self/exe", argv); }
  const char * stats = "build/c02e2/stats.json"; int tier = 0, jobs = 16, only = -1; long cap = 4000000; double deadline = 1e9;
  for (int i = 1; i < argc; i++) {
    if (!strcmp(argv[i], "--stats")) stats = argv[++i]; else if (!strcmp(argv[i], "--tier")) tier = !strcmp(argv[++i], "thorough");
    else if (!strcmp(argv[i], "--jobs")) jobs = atoi(argv[++i]); else if (!strcmp(argv[i], "--conf")) only = atoi(argv[++i]);
    else if (!strcmp(argv[i], "--deadline")) deadline = atof(argv[++i]);
  }
  build_confs(tier);
  sq_begin("C02", "c02e2", "E2 unitmc (explicit-state, every access of the real queue code a transition; SC and x86-TSO)", "replays", argv[0]);
  shared_t * SH = mmap(NULL, sizeof(shared_t) * (jobs + 1), PROT_READ | PROT_WRITE, MAP_SHARED | MAP_ANONYMOUS, -1, 0);
  double t0 = sq_now();
  for (int j = 0; j < jobs; j++) {
    if (fork() == 0) {
      shared_t * me = &SH[j];
      for (int c = j; c < NCONF; c += jobs) {
	if (only >= 0 && c != only) continue;
	if (sq_now() - t0 > deadline) { me->capped++; continue; }
	conf_t * cf = &CONFS[c];
	CAP = cf->cap; PROLOGUE = cf->pro; PROG[0] = cf->own; PROG[1] = cf->th1; PROG[2] = cf->th2; NPART = cf->th2 ? 3 : 2;
	u2_config_t uc = { "wsqueue", sizeof(region_t), init, NPART, { body, body, body }, oracle, bind_env };
	static u2_result_t res;
	u2_explore(&uc, cf->mm, cap, &res);
	me->states += res.states; me->transitions += res.transitions; me->terminals += res.terminals; me->configs++;
	if (res.max_depth > me->maxdepth) me->maxdepth = res.max_depth;
	if (res.violation == 4) me->capped++;
	else if (res.violation && me->nfound < 16) {
	  snprintf(me->fkey[me->nfound], 200, "conf %d: %s cap=%d prologue='%s' owner='%s' thief1='%s' thief2='%s'", c, cf->mm ? "TSO" : "SC", cf->cap, cf->pro, cf->own, cf->th1, cf->th2 ? cf->th2 : "-");
	  snprintf(me->found[me->nfound], 1200, "%s || trace tail: %s", res.msg, strlen(res.trace) > 700 ? res.trace + strlen(res.trace) - 700 : res.trace);
	  me->nfound++;
	  if (only >= 0) fprintf(stderr, "%s\n%s\n", res.msg, res.trace);
	}
      }
      _exit(0);
    }
  }
  int st; while (wait(&st) > 0) {}
  long capped = 0;
  for (int j = 0; j < jobs; j++) {
    SQ.states += SH[j].states; SQ.transitions += SH[j].transitions; SQ.evaluations += SH[j].configs; SQ.distinct += SH[j].terminals; capped += SH[j].capped;
    for (int k = 0; k < SH[j].nfound; k++) { char arg[40]; int c = atoi(SH[j].fkey[k] + 5); snprintf(arg, sizeof arg, "--tier %s --conf %d", tier ? "thorough" : "quick", c); sq_found(SH[j].fkey[k], arg, "%s", SH[j].found[k]); }
  }
  if (capped) SQ.exhaustive = 0;
  if (SQ.states == 0) { SQ.engine_error = 1; fprintf(stderr, "ENGINE-ERROR no state explored (configuration too large for unitmc.c REGION_MAX?)\n"); }   /* never report a vacuous run as a pass */
  sq_detail("%d configurations (capacity x prologue x owner program x thief program(s) x memory model), each explored exhaustively; %ld capped; terminal states checked by the oracle: %ld", NCONF, capped, SQ.distinct);
  for (int i = 0; i < 3 && i < NCONF; i++) { conf_t * cf = &CONFS[(i * 7919) % NCONF]; sq_sample("%s cap=%d prologue='%s' owner='%s' thief='%s'%s%s", cf->mm ? "TSO" : "SC", cf->cap, cf->pro, cf->own, cf->th1, cf->th2 ? " thief2=" : "", cf->th2 ? cf->th2 : ""); }
  return sq_end(stats);
}
