/* C05 --- condition variables: atomic release-and-wait, signal/broadcast reach waiters, wait returns holding the mutex.
 *
 * Program families (predicates re-checked in a loop as POSIX requires, except `stray`):
 *   bb P C n    bounded buffer of capacity 1, P producers, C consumers, n items, two condition variables
 *   gate N      N waiters wait for `open`; the opener sets it and broadcasts under the mutex
 *   turn N      N threads pass a turnstile in order, each broadcasting the change
 *   stray       a signal issued while nobody waits must not wake a later waiter
 *   sem P C     counting semaphore: producers do lock; tokens++; unlock; SIGNAL AFTER UNLOCK; consumers wait for a token
 *   bbb P C n   bounded buffer on ONE condition variable, every put/get does unlock; BROADCAST AFTER UNLOCK
 *   ack N       the signaler keeps its worker after signalling (spins, never yields) until each of N waiters has acknowledged: with >= 2 workers the
 *               woken waiters must be resumed on another worker, whichever worker the signaler occupies
 */
#include "hcommon.h"

enum { F_BB, F_GATE, F_TURN, F_STRAY, F_SEM, F_BBB, F_ACK, F_BIGGATE };
typedef struct { int fam, a, b, n, W, K; } prog_t;
#define MAXP 400
static prog_t P[2][MAXP]; static int NP[2];
static void add(int tier, int fam, int a, int b, int n, int W, int K) { if (NP[tier] < MAXP) { prog_t * p = &P[tier][NP[tier]++]; p->fam = fam; p->a = a; p->b = b; p->n = n; p->W = W; p->K = K; } }
static void build(void) {
  static int built; if (built) return; built = 1;
  for (int tier = 0; tier < 2; tier++) {
    int K = tier ? 3 : 2;
    for (int W = 1; W <= (tier ? 3 : 2); W++) {
      int k = W == 3 ? 2 : K;
      add(tier, F_BB, 1, 1, 2, W, k); add(tier, F_BB, 2, 1, 2, W, W == 1 ? k : 2); add(tier, F_BB, 1, 2, 2, W, W == 1 ? k : 2);
      add(tier, F_BB, 2, 2, 2, W, tier ? 2 : 1);
      if (tier) add(tier, F_BB, 1, 1, 3, W, 2);
      add(tier, F_GATE, 1, 0, 0, W, k); add(tier, F_GATE, 2, 0, 0, W, W == 1 ? k : 2);
      if (tier) add(tier, F_GATE, 3, 0, 0, W, 2);
      add(tier, F_TURN, 2, 0, 0, W, k); add(tier, F_TURN, 3, 0, 0, W, tier ? 2 : 1);
      add(tier, F_STRAY, 0, 0, 0, W, k);
      add(tier, F_SEM, 2, 2, 0, W, W == 1 ? k : 2); add(tier, F_SEM, 1, 1, 0, W, k); if (tier) add(tier, F_SEM, 3, 3, 0, W, 1);
      if (W >= 2) { add(tier, F_ACK, 1, 0, 0, W, W == 2 ? k : 2); add(tier, F_ACK, 2, 0, 0, W, 2); }
      add(tier, F_BIGGATE, tier ? 260 : 130, 0, 0, W, 0);   /* many more waiters than any batch size of the wake-up path: one schedule each */
      add(tier, F_BBB, 1, 1, 2, W, k); add(tier, F_BBB, 2, 2, 2, W, tier ? 2 : 1); add(tier, F_BBB, 1, 2, 2, W, W == 1 ? k : 2);
    }
  }
}
static int nprogs(int tier) { build(); return NP[tier]; }
static void config(int tier, int prog, int * W, int * K) { build(); *W = P[tier][prog].W; *K = P[tier][prog].K; }
static void describe(int tier, int prog, char * b, size_t n) {
  build(); prog_t * p = &P[tier][prog];
  switch (p->fam) {
  case F_BB: snprintf(b, n, "bounded-buffer producers=%d consumers=%d items=%d", p->a, p->b, p->n); break;
  case F_GATE: snprintf(b, n, "gate waiters=%d (broadcast)", p->a); break;
  case F_TURN: snprintf(b, n, "turnstile threads=%d (broadcast)", p->a); break;
  case F_SEM: snprintf(b, n, "semaphore producers=%d consumers=%d (signal after unlock)", p->a, p->b); break;
  case F_BBB: snprintf(b, n, "bounded-buffer on one cond, producers=%d consumers=%d items=%d (broadcast after unlock)", p->a, p->b, p->n); break;
  case F_BIGGATE: snprintf(b, n, "gate with %d waiters, all blocked when the one broadcast is issued", p->a); break;
  case F_ACK: snprintf(b, n, "signaler keeps its worker until %d signalled waiter(s) acknowledged (resumed on another worker)", p->a); break;
  default: snprintf(b, n, "stray signal before any waiter"); break;
  }
}

static prog_t * cur;
static myth_mutex_t m; static myth_cond_t c0, c1;
static volatile int occ, full, slot, produced, consumed_sum, consumed_n, opened, turn, flag, stray_woke;
static volatile int passed[4]; static volatile int big_waiting, big_passed;

static void held_witness(const char * where) {
  occ++; mv_point(&occ, sizeof occ);
  MV_CHECK(occ == 1, "%s: mutex not held exclusively after cond_wait returned / inside critical section (occupancy %d)", where, occ);
  occ--;
}

static void * producer(void * a) {
  int cnt = (int)(long)a;
  for (int i = 0; i < cnt; i++) {
    myth_mutex_lock(&m); held_witness("producer");
    while (full) { myth_cond_wait(&c0, &m); held_witness("producer after wait"); mv_cover(0); }
    slot = ++produced; full = 1;
    myth_cond_signal(&c1);
    myth_mutex_unlock(&m);
  }
  return 0;
}
static void * consumer(void * a) {
  int cnt = (int)(long)a;
  for (int i = 0; i < cnt; i++) {
    myth_mutex_lock(&m); held_witness("consumer");
    while (!full) { myth_cond_wait(&c1, &m); held_witness("consumer after wait"); mv_cover(1); }
    consumed_sum += slot; consumed_n++; full = 0;
    myth_cond_signal(&c0);
    myth_mutex_unlock(&m);
  }
  return 0;
}
static volatile int tokens, taken;
static void * sem_producer(void * a) { (void)a; myth_mutex_lock(&m); held_witness("sem producer"); tokens++; myth_mutex_unlock(&m); myth_cond_signal(&c0); return 0; }
static void * sem_consumer(void * a) {
  (void)a; myth_mutex_lock(&m);
  while (tokens == 0) { myth_cond_wait(&c0, &m); held_witness("sem consumer after wait"); mv_cover(5); }
  tokens--; taken++; myth_mutex_unlock(&m); return 0;
}
static void * bbb_producer(void * a) {
  int cnt = (int)(long)a;
  for (int i = 0; i < cnt; i++) {
    myth_mutex_lock(&m); while (full) { myth_cond_wait(&c0, &m); held_witness("bbb producer after wait"); mv_cover(6); }
    slot = ++produced; full = 1; myth_mutex_unlock(&m); myth_cond_broadcast(&c0);
  }
  return 0;
}
static void * bbb_consumer(void * a) {
  int cnt = (int)(long)a;
  for (int i = 0; i < cnt; i++) {
    myth_mutex_lock(&m); while (!full) { myth_cond_wait(&c0, &m); held_witness("bbb consumer after wait"); mv_cover(6); }
    consumed_sum += slot; consumed_n++; full = 0; myth_mutex_unlock(&m); myth_cond_broadcast(&c0);
  }
  return 0;
}
static void * gate_waiter(void * a) {
  int me = (int)(long)a;
  myth_mutex_lock(&m);
  while (!opened) { myth_cond_wait(&c0, &m); held_witness("gate waiter after wait"); mv_cover(2); }
  passed[me] = 1;
  myth_mutex_unlock(&m);
  return 0;
}
static void * big_gate_waiter(void * a) {
  (void)a;
  myth_mutex_lock(&m); big_waiting++;
  while (!opened) myth_cond_wait(&c0, &m);
  big_passed++;
  myth_mutex_unlock(&m);
  return 0;
}
static void * turn_thread(void * a) {
  int me = (int)(long)a;
  myth_mutex_lock(&m);
  while (turn != me) { myth_cond_wait(&c0, &m); held_witness("turnstile after wait"); mv_cover(3); }
  passed[me] = turn + 1;
  turn++;
  myth_cond_broadcast(&c0);
  myth_mutex_unlock(&m);
  return 0;
}
static void * stray_waiter(void * a) {
  (void)a;
  myth_mutex_lock(&m);
  if (!flag) {
    myth_cond_wait(&c0, &m);      /* single wait: a wake-up here must come from the real signal */
    held_witness("stray waiter");
    MV_CHECK(flag, "cond_wait returned although the only signal so far was issued before the waiter existed (a signal without waiter had an effect)");
    mv_cover(4);
  }
  myth_mutex_unlock(&m);
  return 0;
}
static void * stray_setter(void * a) {
  (void)a;
  myth_mutex_lock(&m); flag = 1; myth_cond_signal(&c0); myth_mutex_unlock(&m);
  return 0;
}

/* F_ACK */
static volatile int ack_ready, ack_count;
static void * ack_waiter(void * a) {
  (void)a;
  myth_mutex_lock(&m);
  while (!ack_ready) { myth_cond_wait(&c0, &m); held_witness("ack waiter"); }
  myth_mutex_unlock(&m);
  mv_point(&ack_count, sizeof ack_count); __sync_fetch_and_add(&ack_count, 1);
  return 0;
}
static void * ack_signaler(void * a) {
  int n = (int)(long)a;
  myth_mutex_lock(&m); ack_ready = 1; myth_cond_broadcast(&c0); myth_mutex_unlock(&m);
  while (ack_count < n) mv_spin_until_changed(&ack_count, sizeof ack_count);   /* keeps the worker: the waiters need another one */
  return 0;
}

static void run(int tier, int prog) {
  build(); cur = &P[tier][prog];
  mv_start(cur->W);
  h_maybe_custom_steal(prog, cur->W);
  h_mutex_init(&m, prog & 1); h_cond_init(&c0, (prog >> 1) & 1); h_cond_init(&c1, prog & 1);
  static h_sentinel_t sent; h_sentinel_start(&sent, 5, prog);
  static h_bystander_t byst; h_bystander_start(&byst, prog, cur->W);
  myth_thread_t th[8]; int nt = 0;
  switch (cur->fam) {
  case F_BB: {
    int per_p = cur->n / cur->a, per_c = cur->n / cur->b;
    for (int i = 0; i < cur->b; i++) th[nt++] = myth_create(consumer, (void *)(long)per_c);
    for (int i = 0; i < cur->a; i++) th[nt++] = myth_create(producer, (void *)(long)per_p);
    for (int i = 0; i < nt; i++) myth_join(th[i], 0);
    int n = per_p * cur->a;
    MV_CHECK(consumed_n == n && consumed_sum == n * (n + 1) / 2, "items lost or duplicated: consumed %d items summing to %d, produced %d", consumed_n, consumed_sum, n);
    break; }
  case F_GATE:
    for (int i = 0; i < cur->a; i++) th[nt++] = myth_create(gate_waiter, (void *)(long)i);
    myth_yield();
    myth_mutex_lock(&m); opened = 1; myth_cond_broadcast(&c0); myth_mutex_unlock(&m);
    for (int i = 0; i < nt; i++) myth_join(th[i], 0);
    for (int i = 0; i < cur->a; i++) MV_CHECK(passed[i], "waiter %d did not pass the gate", i);
    break;
  case F_BIGGATE: {
    static myth_thread_t big[300]; int n = mv_is_fine ? 12 : cur->a;   /* fine mode multiplies the steps: a dozen waiters there */
    for (int i = 0; i < n; i++) big[i] = myth_create(big_gate_waiter, 0);
    for (;;) { myth_mutex_lock(&m); int w = big_waiting; myth_mutex_unlock(&m); if (w >= n) break; myth_yield(); }   /* counted under the mutex, given up only by waiting */
    myth_mutex_lock(&m); opened = 1; myth_cond_broadcast(&c0); myth_mutex_unlock(&m);
    for (int i = 0; i < n; i++) myth_join(big[i], 0);
    MV_CHECK(big_passed == n, "%d of %d waiters passed the gate after the broadcast", big_passed, n);
    break; }
  case F_TURN:
    for (int i = cur->a - 1; i >= 0; i--) th[nt++] = myth_create(turn_thread, (void *)(long)i);
    for (int i = 0; i < nt; i++) myth_join(th[i], 0);
    for (int i = 0; i < cur->a; i++) MV_CHECK(passed[i] == i + 1, "turnstile order broken at %d", i);
    break;
  case F_SEM:
    for (int i = 0; i < cur->b; i++) th[nt++] = myth_create(sem_consumer, 0);
    for (int i = 0; i < cur->a; i++) th[nt++] = myth_create(sem_producer, 0);
    for (int i = 0; i < nt; i++) myth_join(th[i], 0);
    MV_CHECK(taken == cur->b && tokens == cur->a - cur->b, "semaphore: %d tokens taken, %d left (produced %d, consumers %d)", taken, tokens, cur->a, cur->b);
    break;
  case F_ACK:
    for (int i = 0; i < cur->a; i++) th[nt++] = myth_create(ack_waiter, 0);
    th[nt++] = myth_create(ack_signaler, (void *)(long)cur->a);
    for (int i = 0; i < nt; i++) myth_join(th[i], 0);
    MV_CHECK(ack_count == cur->a, "%d of %d waiters acknowledged", ack_count, cur->a);
    break;
  case F_BBB: {
    int per_p = cur->n / cur->a, per_c = cur->n / cur->b;
    for (int i = 0; i < cur->b; i++) th[nt++] = myth_create(bbb_consumer, (void *)(long)per_c);
    for (int i = 0; i < cur->a; i++) th[nt++] = myth_create(bbb_producer, (void *)(long)per_p);
    for (int i = 0; i < nt; i++) myth_join(th[i], 0);
    int n = per_p * cur->a;
    MV_CHECK(consumed_n == n && consumed_sum == n * (n + 1) / 2, "items lost or duplicated: consumed %d items summing to %d, produced %d", consumed_n, consumed_sum, n);
    break; }
  default:
    myth_cond_signal(&c0);      /* nobody waits */
    myth_cond_broadcast(&c0);
    MV_CHECK(m.state == 0, "a signal without waiter changed the mutex state");
    th[nt++] = myth_create(stray_waiter, 0);
    th[nt++] = myth_create(stray_setter, 0);
    for (int i = 0; i < nt; i++) myth_join(th[i], 0);
    break;
  }
  MV_CHECK(m.state == 0, "mutex state %ld at the end", (long)m.state);
  MV_CHECK(c0.sleep_q->head == 0 && c1.sleep_q->head == 0, "a thread is still queued on a condition variable at the end");
  mv_obs("fam=%d consumed=%d sum=%d turn=%d", cur->fam, consumed_n, consumed_sum, turn);
  h_bystander_finish(&byst);
  h_sentinel_finish(&sent);
  h_cond_epilogue(&c0, (prog >> 1) & 1); h_cond_epilogue(&c1, prog & 1); h_mutex_epilogue(&m, prog & 1);
  mv_finish();
}
static const char * const cover_names[] = { "producer_waited", "consumer_waited", "gate_waited", "turn_waited", "stray_waiter_blocked", "sem_consumer_waited", "bbb_waited", 0 };
static uint64_t cover_required(int tier) { (void)tier; return 0x7f; }
mc_harness_t mc_harness = { "C05", "cond", nprogs, describe, config, run, cover_names, cover_required };
