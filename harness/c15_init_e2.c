/* C15 (E2 part) --- "the library initialises itself exactly once": the CAS-elected single initialiser of myth_init_ex_body, explored at
 * memory-access granularity with 2-3 threads whose first use of the library overlaps (SC and x86-TSO).
 * The three functions are the text of src/myth_init.c (cut out at build time, see engine/build_e2_init.sh); the real initialisation they
 * guard is replaced by a counter, the yield in the wait loop by the explorer's "blocked until that word changes". */
#include <stdio.h>
#include <stdlib.h>
#include <string.h>
#include <assert.h>
#include <unistd.h>
#include <sys/wait.h>
#include <sys/mman.h>
#include <sys/personality.h>
#include "myth/myth.h"
#include "unitmc.h"
#include "seqmc.h"
enum { myth_init_state_uninit, myth_init_state_initializing, myth_init_state_initialized };   /* as in src/myth_init.h */
typedef struct { volatile int state; volatile int inits, running, overlap; } region_t;
static region_t * RG;
void mythv_spin(int id, const volatile void * addr, size_t sz);
static void e2_really(void) {
  if (RG->running) RG->overlap = 1;      /* two initialisers inside the real initialisation at once */
  RG->running = 1;
  RG->inits = RG->inits + 1;
  RG->running = 0;
}
#define g_myth_init_state (RG->state)
#define myth_init_ex_body_really(attr) e2_really()
#define real_sched_yield() mythv_spin(0, (const volatile void *)var, sizeof(int))
#include "init_unit.h"

#ifndef INIT_UNIT_MISSING
static int NPART;
static void init(void * region) { region_t * r = region; r->state = myth_init_state_uninit; r->inits = r->running = r->overlap = 0; }
static void bind_rg(void * region, int me) { (void)me; RG = region; }
static void body(void * region, int me) {
  (void)region;
  int r = myth_init_ex_body(0);
  if (r != 1) u2_fail("myth_init_ex_body returned %d", r);
  if (RG->state != myth_init_state_initialized) u2_fail("participant %d returned from initialisation while the library is not initialised (state %d)", me, RG->state);
  u2_note(me, RG->inits);
}
static char omsg[200];
static const char * oracle(void * region) {
  region_t * r = region;
  if (r->inits != 1) { snprintf(omsg, sizeof omsg, "the real initialisation ran %d times for %d concurrent first uses", r->inits, NPART); return omsg; }
  if (r->overlap) return "two threads were inside the real initialisation at the same time";
  if (r->state != myth_init_state_initialized) { snprintf(omsg, sizeof omsg, "final state %d", r->state); return omsg; }
  return NULL;
}
#endif

int main(int argc, char ** argv) {
  if (!getenv("U2_NOASLR")) { setenv("U2_NOASLR", "1", 1); if (personality(ADDR_NO_RANDOMIZE) != -1) execv("/proc/self/exe", argv); }
  const char * stats = "build/c15e2/stats.json"; int tier = 0;
  for (int i = 1; i < argc; i++) { if (!strcmp(argv[i], "--stats")) stats = argv[++i]; else if (!strcmp(argv[i], "--tier")) tier = !strcmp(argv[++i], "thorough"); }
  sq_begin("C15", "c15e2", "E2 unitmc (explicit-state; every access of the real once-control code a transition; SC and x86-TSO)", "replays", argv[0]);
#ifdef INIT_UNIT_MISSING
  (void)tier;
  SQ.exhaustive = 0;
  sq_detail("the once-control functions could not be located in src/myth_init.c (layout changed): this component explored nothing and claims nothing");
  return sq_end(stats);
#else
  for (int mm = 0; mm < 2; mm++) for (int np = 2; np <= (tier ? 4 : 3); np++) {
    if (np > U2_MAXP) continue;
    NPART = np;
    u2_config_t uc = { "init-once", sizeof(region_t), init, np, { body, body, body, body }, oracle, bind_rg };
    static u2_result_t res; u2_explore(&uc, mm, 4000000, &res);
    SQ.states += res.states; SQ.transitions += res.transitions; SQ.evaluations++; SQ.distinct += res.terminals;
    if (res.violation == 4) SQ.exhaustive = 0;
    else if (res.violation) { char key[80], arg[40]; snprintf(key, sizeof key, "%s, %d threads call myth_init concurrently", mm ? "TSO" : "SC", np); snprintf(arg, sizeof arg, "--tier %s", tier ? "thorough" : "quick");
      sq_found(key, arg, "%s || trace tail: %s", res.msg, strlen(res.trace) > 400 ? res.trace + strlen(res.trace) - 400 : res.trace); }
  }
  if (SQ.states == 0) SQ.engine_error = 1;
  sq_detail("2-%d threads whose first use of the library overlaps, SC and x86-TSO, all interleavings of the real myth_init_ex_body / once-control code", tier ? 4 : 3);
  sq_sample("SC, 2 threads: both read 'uninit'; one wins the CAS and initialises, the other waits for 'initialized'");
  return sq_end(stats);
#endif
}
