/* C07 (E3 part) --- boundary values of N for the packed state word of the join counter:
 * N in 0..9, 2^k-1, 2^k, 2^k+1 for k up to 30, INT_MAX-1, INT_MAX (field split calc_bits/state_mask), 0-2 waiters.
 * Small N perform all decrements for real; large N preset the public `state` field to N-2 decrements
 * ("accelerated") and perform the last two for real.  One process per case, two workers, watchdog. */
#include "myth/myth.h"
#include "seqmc.h"
#include <sys/wait.h>
#include <unistd.h>

static myth_join_counter_t jc; static volatile int released;
static void * waiter(void * a) { (void)a; myth_join_counter_wait(&jc); __sync_fetch_and_add(&released, 1); return 0; }

static int one_case(long N, int nwaiters, int accelerated, char * msg, size_t msz) {
  int pfd[2]; if (pipe(pfd)) return 2;
  pid_t pid = fork();
  if (pid == 0) {
    close(pfd[0]); alarm(120);
    setenv("MYTH_NUM_WORKERS", "2", 1);
    myth_init();
    char m[300] = ""; int bad = 0;
    myth_join_counter_init(&jc, 0, N);
    long done = 0;
    if (accelerated && N > 2) { jc.state = N - 2; done = N - 2; }
    myth_thread_t th[2];
    for (int i = 0; i < nwaiters; i++) th[i] = myth_create(waiter, 0);
    /* let the waiters announce themselves and block (they cannot pass: decrements are missing) */
    if (done < N) { for (int spin = 0; spin < 200000 && (jc.state >> jc.n_threads_bits) != nwaiters; spin++) myth_yield(); 
      if ((jc.state >> jc.n_threads_bits) != nwaiters) { bad = 1; snprintf(m, sizeof m, "waiter field of the state word reads %ld after %d waiters announced themselves (state=%#lx, bits=%d)", (long)(jc.state >> jc.n_threads_bits), nwaiters, (unsigned long)jc.state, jc.n_threads_bits); }
      if (released) { bad = 1; snprintf(m, sizeof m, "a waiter was released after %ld of %ld decrements", done, N); } }
    for (; done < N && !bad; done++) {
      if (released && done < N) { bad = 1; snprintf(m, sizeof m, "a waiter was released after %ld of %ld decrements", done, N); break; }
      myth_join_counter_dec(&jc);
    }
    if (!bad) {
      for (int i = 0; i < nwaiters; i++) myth_join(th[i], 0);      /* hangs (watchdog) if a waiter is left asleep */
      if (released != nwaiters) { bad = 1; snprintf(m, sizeof m, "%d of %d waiters released", released, nwaiters); }
      myth_join_counter_wait(&jc);                                  /* afterwards: immediate */
      if ((jc.state & jc.state_mask) != N) { bad = 1; snprintf(m, sizeof m, "decrement field reads %ld after %ld decrements", (long)(jc.state & jc.state_mask), N); }
    }
    if (write(pfd[1], m, strlen(m) + 1) < 0) {}
    _exit(bad);
  }
  close(pfd[1]);
  int st; int hung = sq_wait_child(pid, 90, &st);
  ssize_t k = read(pfd[0], msg, msz - 1); if (k < 0) k = 0; msg[k] = 0; close(pfd[0]);
  if (hung) { snprintf(msg, msz, "a waiter is left sleeping after the N-th decrement (watchdog)"); return 1; }
  if (WIFSIGNALED(st)) { snprintf(msg, msz, "%s", WTERMSIG(st) == SIGALRM ? "a waiter is left sleeping after the N-th decrement (watchdog)" : "process crashed (assertion in the library)"); return 1; }
  return WEXITSTATUS(st);
}

int main(int argc, char ** argv) {
  const char * stats = "build/c07b/stats.json"; int tier = 0; long only = -1; int onlyw = 0;
  for (int i = 1; i < argc; i++) { if (!strcmp(argv[i], "--stats")) stats = argv[++i]; else if (!strcmp(argv[i], "--tier")) tier = !strcmp(argv[++i], "thorough"); else if (!strcmp(argv[i], "--case")) { only = atol(argv[++i]); onlyw = atoi(argv[++i]); } }
  sq_begin("C07", "c07b", "E3 seqmc (bounded exhaustive boundary inputs of the packed state word, one process per case)", "replays", argv[0]);
  if (!freopen("/dev/null", "w", stderr)) {}
  long Ns[400]; int nn = 0;
  for (long n = 0; n <= 9; n++) Ns[nn++] = n;
  /* the public initialiser takes an int: N ranges up to INT_MAX */
  for (int k = 4; k <= 30; k++) { Ns[nn++] = (1L << k) - 1; Ns[nn++] = 1L << k; Ns[nn++] = (1L << k) + 1; }
  Ns[nn++] = 2147483646L; Ns[nn++] = 2147483647L;
  char msg[400];
  for (int i = 0; i < nn; i++) for (int w = 0; w <= 2; w++) {
    long N = Ns[i];
    if (only >= 0 && (N != only || w != onlyw)) continue;
    int acc = N > (tier ? 70000 : 5000);
    int r = one_case(N, w, acc, msg, sizeof msg);
    SQ.states++; SQ.evaluations++; SQ.transitions += acc ? 2 + w : N + w;
    if (r && SQ.nfound < 10) { char key[100]; snprintf(key, sizeof key, "join counter N=%ld (%s) with %d waiter(s)", N, acc ? "accelerated: state preset to N-2" : "all decrements real", w); char arg[60]; snprintf(arg, sizeof arg, "--case %ld %d", N, w); sq_found(key, arg, "%s", msg); }
    if (only >= 0) printf("N=%ld waiters=%d -> %s %s\n", N, w, r ? "VIOLATION" : "ok", msg);
  }
  SQ.distinct = SQ.states;
  sq_detail("%d values of N (0..9 and 2^k-1, 2^k, 2^k+1 for k=4..30, INT_MAX-1, INT_MAX: the public initialiser takes an int) x 0..2 waiters; N above %d accelerated by presetting the state word", nn, tier ? 70000 : 5000);
  sq_sample("N=2^31+1 with 2 waiters, state preset to N-2, two real decrements"); sq_sample("N=17 with 1 waiter, 17 real decrements");
  return sq_end(stats);
}
