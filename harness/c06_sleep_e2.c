/* C06 / C04 / C05 (E2 part) --- the lock-free sleeper stack (myth_sleep_stack_push/pop: barrier) and the spin-locked
 * sleep queue (myth_sleep_queue_enq/deq: mutex, cond, join counter) explored at memory-access granularity under SC
 * and x86-TSO.  Compiled with -fsanitize=thread (instrumentation only). */
#include "myth/myth.h"
#include "myth_config.h"
#include "myth_sleep_queue_func.h"
#include "unitmc.h"
#include "seqmc.h"
#include <sys/wait.h>
#include <sys/mman.h>
#include <sys/personality.h>
#include <unistd.h>

typedef struct { myth_sleep_stack_t st; myth_sleep_queue_t q; myth_sleep_queue_item items[8]; } region_t;
/* program letters: p push next own item on the stack, P pop until an item is found; e enqueue next own item, D dequeue until found, d dequeue once */
static const char * PROG[U2_MAXP]; static int NPART;
static void init(void * region) { region_t * r = region; memset(r, 0, sizeof *r); myth_sleep_stack_init(&r->st); myth_sleep_queue_init(&r->q); }
static void body(void * region, int me) {
  region_t * r = region; int mine = 2 * me;
  for (const char * s = PROG[me]; *s; s++) {
    myth_sleep_queue_item_t x;
    switch (*s) {
    case 'p': myth_sleep_stack_push(&r->st, &r->items[mine]); u2_note(me, 1000 + mine); mine++; break;
    case 'P': while (!(x = myth_sleep_stack_pop(&r->st))) { MYTH_VERIF_SPIN(mythv_p_wake_wait, r->st.top); }   /* as myth_wake_many_from_stack does */
      u2_note(me, 2000 + (x - r->items)); break;
    case 'e': myth_sleep_queue_enq(&r->q, &r->items[mine]); u2_note(me, 1000 + mine); mine++; break;
    case 'D': while (!(x = myth_sleep_queue_deq(&r->q))) { MYTH_VERIF_SPIN(mythv_p_wake_wait, r->q.head); }    /* as myth_wake_one/many_from_queue do */
      u2_note(me, 2000 + (x - r->items)); break;
    case 'd': x = myth_sleep_queue_deq(&r->q); u2_note(me, x ? 2000 + (x - r->items) : 2999); break;
    }
  }
}
static char omsg[300];
static const char * oracle(void * region) {
  region_t * r = region; int ins[8] = {0}, out[8] = {0}, order_ok = 1;
  for (int p = 0; p < NPART; p++) { int last[U2_MAXP]; for (int k = 0; k < U2_MAXP; k++) last[k] = -1;
    for (int i = 0; i < u2_nnoted(p); i++) { long v = u2_noted(p, i);
      if (v >= 1000 && v < 2000) ins[v - 1000]++;
      else if (v >= 2000 && v < 2999) { int it = (int)v - 2000; if (it < 0 || it > 7) { snprintf(omsg, sizeof omsg, "pop/deq returned a pointer that is no item"); return omsg; } out[it]++;
	/* queue: items of one enqueuer come out in the order they went in (as seen by one dequeuer) */
	if (strchr(PROG[p], 'D') || strchr(PROG[p], 'd')) { int owner = it / 2; if (last[owner] > it) order_ok = 0; last[owner] = it; } } } }
  int left[8] = {0};
  for (myth_sleep_queue_item_t x = r->st.top; x; x = x->next) { long k = x - r->items; if (k < 0 || k > 7 || left[k]) { snprintf(omsg, sizeof omsg, "sleeper stack is corrupt at quiescence (cycle or foreign pointer)"); return omsg; } left[k]++; }
  for (myth_sleep_queue_item_t x = r->q.head; x; x = x->next) { long k = x - r->items; if (k < 0 || k > 7 || left[k]) { snprintf(omsg, sizeof omsg, "sleep queue is corrupt at quiescence (cycle or foreign pointer)"); return omsg; } left[k]++; }
  for (int k = 0; k < 8; k++) {
    if (out[k] + left[k] > ins[k]) { snprintf(omsg, sizeof omsg, "sleeper %d was put to sleep %d time(s) but handed out %d time(s) (+%d still queued): woken twice", k, ins[k], out[k], left[k]); return omsg; }
    if (out[k] + left[k] < ins[k]) { snprintf(omsg, sizeof omsg, "sleeper %d was put to sleep but neither handed out nor still queued: lost", k); return omsg; }
  }
  if (!order_ok) { snprintf(omsg, sizeof omsg, "sleep queue is not FIFO per enqueuer"); return omsg; }
  if (r->q.head == 0 && r->q.tail != 0) { snprintf(omsg, sizeof omsg, "sleep queue: empty head but dangling tail"); return omsg; }
  return NULL;
}
typedef struct { const char * a, * b, * c; int mm; } conf_t;
typedef struct { long states, transitions, terminals, configs; int nfound; char found[8][900]; char fkey[8][120]; long capped; } shared_t;
int main(int argc, char ** argv) {
  if (!getenv("U2_NOASLR")) { setenv("U2_NOASLR", "1", 1); if (personality(ADDR_NO_RANDOMIZE) != -1) execv("/proc/self/exe", argv); }
  const char * stats = "build/c06e2/stats.json"; int tier = 0, jobs = 16, only = -1;
  for (int i = 1; i < argc; i++) { if (!strcmp(argv[i], "--stats")) stats = argv[++i]; else if (!strcmp(argv[i], "--tier")) tier = !strcmp(argv[++i], "thorough"); else if (!strcmp(argv[i], "--jobs")) jobs = atoi(argv[++i]); else if (!strcmp(argv[i], "--conf")) only = atoi(argv[++i]); }
  /* stack: single popper per round (the barrier's protocol); queue: any mix */
  static const char * S3[][3] = { {"p", "P", 0}, {"p", "p", "PP"}, {"pp", "p", "PPP"}, {"p", "pP", "P"}, {"pp", "PP", 0}, {"p", "p", "PPpP"}, {"pp", "P", "P"},
    {"e", "D", 0}, {"e", "e", "DD"}, {"ee", "e", "DDD"}, {"ee", "DD", 0}, {"e", "e", "dd"}, {"e", "eD", "D"}, {"e", "d", "d"}, {"ee", "D", "D"}, {"e", "e", "Dd"}, {0, 0, 0} };
  static const char * S3t[][3] = { {"pp", "pp", "PPPP"}, {"ee", "ee", "DDDD"}, {"ee", "eD", "DD"}, {"pp", "pP", "PP"}, {0, 0, 0} };
  static conf_t confs[200]; int nconf = 0;
  for (int mm = 0; mm < 2; mm++) { for (int i = 0; S3[i][0]; i++) { conf_t c = { S3[i][0], S3[i][1], S3[i][2], mm }; confs[nconf++] = c; }
    if (tier) for (int i = 0; S3t[i][0]; i++) { conf_t c = { S3t[i][0], S3t[i][1], S3t[i][2], mm }; confs[nconf++] = c; } }
  sq_begin("C06", strrchr(argv[0], 0x2f) ? strrchr(argv[0], 0x2f) + 1 : "c06e2", "E2 unitmc (explicit-state; every access of the real sleeper stack / sleep queue code a transition; SC and x86-TSO)", "replays", argv[0]);
  shared_t * SH = mmap(NULL, sizeof(shared_t) * jobs, PROT_READ | PROT_WRITE, MAP_SHARED | MAP_ANONYMOUS, -1, 0);
  for (int j = 0; j < jobs; j++) if (fork() == 0) {
    shared_t * me = &SH[j];
    for (int c = j; c < nconf; c += jobs) {
      if (only >= 0 && c != only) continue;
      conf_t * cf = &confs[c]; PROG[0] = cf->a; PROG[1] = cf->b; PROG[2] = cf->c; NPART = cf->c ? 3 : 2;
      u2_config_t uc = { "sleep", sizeof(region_t), init, NPART, { body, body, body }, oracle, 0 };
      static u2_result_t res; u2_explore(&uc, cf->mm, 8000000, &res);
      me->states += res.states; me->transitions += res.transitions; me->terminals += res.terminals; me->configs++;
      if (res.violation == 4) me->capped++;
      else if (res.violation && me->nfound < 8) { snprintf(me->fkey[me->nfound], 120, "conf %d: %s A='%s' B='%s' C='%s'", c, cf->mm ? "TSO" : "SC", cf->a, cf->b, cf->c ? cf->c : "-");
	snprintf(me->found[me->nfound], 900, "%s || trace tail: %s", res.msg, strlen(res.trace) > 500 ? res.trace + strlen(res.trace) - 500 : res.trace); me->nfound++;
	if (only >= 0) fprintf(stderr, "%s\n%s\n", res.msg, res.trace); }
    }
    _exit(0);
  }
  int st; while (wait(&st) > 0) {}
  long capped = 0;
  for (int j = 0; j < jobs; j++) { SQ.states += SH[j].states; SQ.transitions += SH[j].transitions; SQ.evaluations += SH[j].configs; SQ.distinct += SH[j].terminals; capped += SH[j].capped;
    for (int k = 0; k < SH[j].nfound; k++) { char arg[60]; snprintf(arg, sizeof arg, "--tier %s --conf %d", tier ? "thorough" : "quick", atoi(SH[j].fkey[k] + 5)); sq_found(SH[j].fkey[k], arg, "%s", SH[j].found[k]); } }
  if (capped) SQ.exhaustive = 0;
  if (SQ.states == 0) { SQ.engine_error = 1; fprintf(stderr, "ENGINE-ERROR no state explored (configuration too large for unitmc.c REGION_MAX?)\n"); }   /* never report a vacuous run as a pass */
  sq_detail("%d configurations (2-3 participants pushing/popping the sleeper stack or enqueueing/dequeueing the sleep queue x memory model), each explored exhaustively; %ld capped", nconf, capped);
  sq_sample("TSO A='p' B='p' C='PP' (two sleepers push, the last arriver pops both)"); sq_sample("SC A='ee' B='e' C='DDD'");
  return sq_end(stats);
}
