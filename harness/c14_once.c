/* C14 --- myth_once: init routine runs exactly once; nobody returns before it completed; later calls do nothing. */
#include "hcommon.h"
enum { I_PLAIN, I_YIELD, I_MUTEX, I_CREATE, I_NESTED };
static const char * const i_name[] = { "plain", "yields", "blocks on a mutex held by a bystander", "creates and joins a thread", "calls myth_once on a second control whose (yielding) init routine is in progress in another thread" };
typedef struct { int callers, init, main_calls, W, K; } prog_t;
#define MAXP 128
static prog_t P[2][MAXP]; static int NP[2];
static void add(int tier, int c, int in, int mc, int W, int K) { if (NP[tier] < MAXP) { prog_t * p = &P[tier][NP[tier]++]; p->callers = c; p->init = in; p->main_calls = mc; p->W = W; p->K = K; } }
static void build(void) {
  static int built; if (built) return; built = 1;
  for (int tier = 0; tier < 2; tier++) for (int W = 1; W <= (tier ? 3 : 2); W++) for (int in = 0; in < 4; in++) for (int c = 1; c <= (tier ? 3 : 2); c++) for (int mc = 0; mc < 2; mc++) {
    int K = tier ? 3 : 2; if (c == 3 || W == 3) K = 2; if (c == 3 && W == 3) K = 1; if (!tier && c == 2 && in >= 2) K = W == 1 ? 2 : 1;
    if (tier && c == 2 && in >= 2 && W == 2) K = 2;
    add(tier, c, in, mc, W, K);
  }
  /* nested use of two controls: the init routine of one control calls myth_once on another one that is in progress elsewhere */
  for (int tier = 0; tier < 2; tier++) for (int W = 1; W <= 2; W++) for (int c = 1; c <= 2; c++) for (int mc = 0; mc < 2; mc++) add(tier, c, I_NESTED, mc, W, tier ? 2 : (c == 1 ? 2 : 1));
}
static int nprogs(int tier) { build(); return NP[tier]; }
static void config(int tier, int prog, int * W, int * K) { build(); *W = P[tier][prog].W; *K = P[tier][prog].K; }
static void describe(int tier, int prog, char * b, size_t n) { build(); prog_t * p = &P[tier][prog]; snprintf(b, n, "once: %d concurrent callers%s + late call, init %s", p->callers, p->main_calls ? " + main" : "", i_name[p->init]); }
static prog_t * cur; static myth_once_t once = { myth_once_state_init }; static myth_mutex_t gate;
static volatile int inits, completed, returned;
static void * noop(void * a) { return a; }
static myth_once_t onceB = { myth_once_state_init }; static volatile int initsB, completedB;
static void initB(void) { initsB++; MV_CHECK(initsB == 1, "init routine of the second control executed %d times", initsB); myth_yield(); myth_yield(); mv_point(&completedB, sizeof(int)); completedB = 1; }
static void * callerB(void * a) { int r = myth_once(&onceB, initB); MV_CHECK(r == 0 && completedB == 1 && initsB == 1, "myth_once on the second control returned %d with its init routine %s (%d executions)", r, completedB ? "completed" : "not completed", initsB); return a; }
static void init_routine(void) {
  inits++;
  MV_CHECK(inits == 1, "init routine executed %d times", inits);
  switch (cur->init) {
  case I_YIELD: myth_yield(); myth_yield(); break;
  case I_MUTEX: myth_mutex_lock(&gate); myth_mutex_unlock(&gate); break;
  case I_CREATE: { myth_thread_t t = myth_create(noop, 0); myth_join(t, 0); break; }
  case I_NESTED: { int r = myth_once(&onceB, initB); MV_CHECK(r == 0, "nested myth_once returned %d", r);
    MV_CHECK(completedB == 1 && initsB == 1, "myth_once called from inside another control's init routine returned before the init routine of its own control completed (executions %d)", initsB); break; }
  default: break;
  }
  mv_point(&completed, sizeof(int));
  completed = 1;
}
static void * caller(void * a) {
  (void)a;
  int r = myth_once(&once, init_routine);
  MV_CHECK(r == 0, "myth_once returned %d", r);
  MV_CHECK(completed == 1, "myth_once returned before the init routine completed");
  MV_CHECK(inits == 1, "init routine executed %d times", inits);
  returned++;
  return 0;
}
static void * gate_holder(void * a) { (void)a; myth_mutex_lock(&gate); myth_yield(); myth_yield(); myth_mutex_unlock(&gate); return 0; }
static void run(int tier, int prog) {
  build(); cur = &P[tier][prog];
  mv_start(cur->W);
  myth_mutex_init(&gate, 0);
  myth_thread_t th[6]; int nt = 0;
  if (cur->init == I_MUTEX) th[nt++] = myth_create(gate_holder, 0);
  if (cur->init == I_NESTED) th[nt++] = myth_create(callerB, 0);
  for (int i = 0; i < cur->callers; i++) th[nt++] = myth_create(caller, 0);
  if (cur->main_calls) caller(0);
  for (int i = 0; i < nt; i++) myth_join(th[i], 0);
  int before = inits;
  caller(0);   /* late call */
  MV_CHECK(inits == before && inits == 1, "late call ran the init routine (count %d)", inits);
  mv_obs("callers=%d inits=%d", returned, inits);
  mv_finish();
}
static uint64_t cover_required(int tier) { (void)tier; return 0; }
mc_harness_t mc_harness = { "C14", "once", nprogs, describe, config, run, 0, cover_required };
