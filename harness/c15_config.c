/* C15 (E3 part) --- configuration parsing, worker count, init/fini histories.
 *   parser : every string up to length L over a 9-letter alphabet (+ structured long ones) through the real
 *            myth_parse_cpu_list (this file #includes src/myth_bind_worker.c), against an independent recogniser
 *   env    : every string of length <= 3 over {0,1,7,-,+,' ',x} for each configuration variable, one process each
 *   hist   : every history of length <= D over {init_ex(1|2|3), implicit init, fini, create+join, query}
 */
#include <setjmp.h>
#include <signal.h>
#include <dirent.h>
#include <sys/wait.h>
#include "myth/myth.h"
#include "seqmc.h"
#include "myth_bind_worker.c"

/* ------------------------------------------------------------------ trap assert() inside the parser */
static sigjmp_buf trap; static int trapping; static char trap_msg[200];
void __assert_fail(const char * e, const char * f, unsigned l, const char * fn) {
  if (trapping) { snprintf(trap_msg, sizeof trap_msg, "assertion `%s' failed in %s (%s:%u)", e, fn, f, l); siglongjmp(trap, 1); }
  fprintf(stderr, "assert %s %s:%u\n", e, f, l); _exit(66);
}
/* a wild access or division inside the parser is a verdict on that input, not the end of the check */
static void trap_signal(int sig) {
  if (trapping) { if (sig == SIGALRM) snprintf(trap_msg, sizeof trap_msg, "the parser did not return within 5 s (it does not terminate on this value)"); else snprintf(trap_msg, sizeof trap_msg, "signal %d (%s) inside the parser", sig, strsignal(sig)); siglongjmp(trap, 1); }
  _exit(67);
}

/* ------------------------------------------------------------------ reference recogniser: range(,range)*, range ::= a | a-b | a-b:c */
static int ref_int(const char ** p, long * v) { if (!isdigit((unsigned char)**p)) return 0; long x = 0; int nd = 0; while (isdigit((unsigned char)**p)) { x = x * 10 + (**p - '0'); (*p)++; if (++nd > 6) return -1; } *v = x; return 1; }
/* returns count, -1 malformed (or too many numbers), -2 = outside the compared domain (huge literals) */
static int ref_parse(const char * s, int * out, int cap) {
  int n = 0; const char * p = s;
  for (;;) {
    long a, b, c = 1; int r = ref_int(&p, &a); if (r < 0) return -2; if (!r) return -1;
    b = a + 1;
    if (*p == '-') { p++; r = ref_int(&p, &b); if (r < 0) return -2; if (!r) return -1; if (*p == ':') { p++; r = ref_int(&p, &c); if (r < 0) return -2; if (!r) return -1; } }
    if (c == 0 && a < b) return -1;                         /* would never end: the library reports "too many numbers" */
    for (long x = a; x < b; x += c) { if (n >= cap) return -1; out[n++] = (int)x; }
    if (*p == ',') { p++; continue; }
    if (*p == 0) return n;
    return -1;
  }
}

static long parser_cases;
static void parser_one(const char * s) {
  static int got[N_MAX_CPUS + 8], want[N_MAX_CPUS + 8];
  setenv("VERIF_CPU_LIST", s, 1);
  int g = -99;
  trapping = 1;
  alarm(5);
  if (sigsetjmp(trap, 1) == 0) g = myth_parse_cpu_list("VERIF_CPU_LIST", got, N_MAX_CPUS);
  else g = -98;
  alarm(0);
  trapping = 0;
  parser_cases++; SQ.states++; SQ.evaluations++; SQ.transitions += strlen(s) + 1;
  char key[120]; int o = snprintf(key, sizeof key, "MYTH_CPU_LIST=\"");
  for (const char * q = s; *q && o < 100; q++) o += (*q == '\n') ? snprintf(key + o, sizeof key - o, "\\n") : snprintf(key + o, sizeof key - o, "%c", *q);
  snprintf(key + o, sizeof key - o, "\"");
  if (g == -98) { if (SQ.nfound < 6) sq_found(key, "", "the parser aborts or hangs instead of rejecting the value: %s", trap_msg); return; }
  int w = ref_parse(s, want, N_MAX_CPUS);
  if (w == -2) return;
  if (w == -1) { if (g != -1 && SQ.nfound < 12) sq_found(key, "", "malformed list accepted (parser returned %d entries)", g); return; }
  if (g != w || memcmp(got, want, sizeof(int) * (w > 0 ? w : 0))) { if (SQ.nfound < 12) sq_found(key, "", "well-formed list parsed to %d entries, reference says %d", g, w); }
}
static void parser_all(int maxlen) {
  signal(SIGSEGV, trap_signal); signal(SIGBUS, trap_signal); signal(SIGFPE, trap_signal); signal(SIGALRM, trap_signal);   /* no runtime in this process yet: SIGALRM is ours */
  static const char A[] = "019-:, \nx";
  char buf[16]; int idx[16];
  parser_one("");
  for (int len = 1; len <= maxlen; len++) {
    memset(idx, 0, sizeof idx);
    for (;;) {
      for (int i = 0; i < len; i++) buf[i] = A[idx[i]]; buf[len] = 0;
      parser_one(buf);
      int k = len - 1; while (k >= 0 && ++idx[k] == 9) { idx[k] = 0; k--; }
      if (k < 0) break;
    }
  }
  /* structured long inputs */
  static char big[20000]; int o = 0;
  for (int i = 0; i < 1030; i++) o += snprintf(big + o, sizeof big - o, "%s%d", i ? "," : "", i % 7);
  parser_one(big);                                    /* more than 1024 entries: documented error */
  parser_one("0-1024"); parser_one("0-1023"); parser_one("0-5000:5"); parser_one("0-9:0"); parser_one("5-5"); parser_one("9-3"); parser_one("0-9:100");
  parser_one("99999999999999999999"); parser_one("0-99999999999"); parser_one("1,2,3\n"); parser_one("\n"); parser_one("0-3:1,8-11:2,15");
  parser_one("0,,1"); parser_one("0-"); parser_one("-3"); parser_one("0:2"); parser_one("0-3:"); parser_one("1 ,2"); parser_one("0x10");
  sq_detail("%ld CPU-list strings (all strings of length <= %d over \"019-:, \\nx\" plus structured long ones); ", parser_cases, maxlen);
  sq_sample("MYTH_CPU_LIST=\"0-9:1\""); sq_sample("MYTH_CPU_LIST=\"1,\\n\"");
}

/* ------------------------------------------------------------------ environment values, one process each */
static void * nop(void * a) { return a; }
static int run_env(const char * var, const char * val, int * nw_out) {
  int pfd[2]; if (pipe(pfd)) return -1;
  pid_t pid = fork();
  if (pid == 0) {
    close(pfd[0]);
    if (val) setenv(var, val, 1); else unsetenv(var);
    if (strcmp(var, "MYTH_NUM_WORKERS")) setenv("MYTH_NUM_WORKERS", "2", 1);
    if (!strcmp(var, "MYTH_CPU_LIST")) setenv("MYTH_BIND_WORKERS", "1", 1);
    alarm(120);
    myth_thread_t t = myth_create(nop, (void *)5); void * r = 0; myth_join(t, &r);
    int nw = myth_get_num_workers(), wn = myth_get_worker_num();
    if (r != (void *)5 || wn < 0 || wn >= nw) nw = -7;
    if (write(pfd[1], &nw, sizeof nw) < 0) {}
    _exit(0);
  }
  close(pfd[1]);
  int st; int hung = sq_wait_child(pid, 120, &st);
  int nw = -1; if (read(pfd[0], &nw, sizeof nw) != sizeof nw) nw = -1; close(pfd[0]);
  *nw_out = nw;
  if (hung) return -3;
  if (WIFSIGNALED(st)) return WTERMSIG(st) == SIGALRM ? -3 : -2;
  return WEXITSTATUS(st) ? -4 : 0;
}
static long env_cases;
static void env_var(const char * var, int maxlen) {
  static const char A[] = "017-+ x";
  int ncpu = (int)sysconf(_SC_NPROCESSORS_ONLN);
  char buf[8]; int idx[8];
  for (int len = -1; len <= maxlen; len++) {
    memset(idx, 0, sizeof idx);
    for (;;) {
      for (int i = 0; i < len; i++) buf[i] = A[idx[i]]; if (len >= 0) buf[len] = 0;
      const char * val = len < 0 ? NULL : buf;
      int v = val ? atoi(val) : 0, skip = 0;
      /* well-formed but unusable requests are the caller's responsibility */
      if (!strcmp(var, "MYTH_NUM_WORKERS") && v > 64) skip = 1;
      if (!strcmp(var, "MYTH_DEF_STKSIZE") && v > 0 && v < 32768) skip = 1;
      if (!skip) {
	int nw = 0, rc = run_env(var, val, &nw);
	env_cases++; SQ.states++; SQ.evaluations++; SQ.transitions += 4;
	char key[80]; snprintf(key, sizeof key, "%s=%s%s%s", var, val ? "\"" : "", val ? val : "(unset)", val ? "\"" : "");
	if (rc) { if (SQ.nfound < 16) sq_found(key, "", "%s", rc == -2 ? "process crashed during initialisation / first use" : rc == -3 ? "process hung" : "process failed"); }
	else if (!strcmp(var, "MYTH_NUM_WORKERS")) {
	  int want = v > 0 ? v : ncpu;
	  if (nw != want && SQ.nfound < 16) sq_found(key, "", "runs with %d workers, expected %d", nw, want);
	} else if (nw != 2 && SQ.nfound < 16) sq_found(key, "", "runs with %d workers although MYTH_NUM_WORKERS=2", nw);
	if (env_cases % 97 == 1) sq_sample("%s -> %d workers", key, nw);
      }
      if (len <= 0) break;
      int k = len - 1; while (k >= 0 && ++idx[k] == 7) { idx[k] = 0; k--; }
      if (k < 0) break;
    }
  }
}

/* ------------------------------------------------------------------ init / fini histories */
static int count_os_threads_once(void) { int n = 0; DIR * d = opendir("/proc/self/task"); if (!d) return -1; struct dirent * e; while ((e = readdir(d))) if (e->d_name[0] != '.') n++; closedir(d); return n; }
/* pthread_join returns when the kernel clears the tid word, a moment before the task leaves /proc: poll briefly */
static int count_os_threads(void) { int n = 0; for (int i = 0; i < 200; i++) { n = count_os_threads_once(); if (n == 1) break; usleep(1000); } return n; }
/* every requested worker must really schedule: n threads that each hold their worker until all n are occupied at once */
static volatile int occ_arrived, occ_need;
static void * occ_body(void * a) {
  (void)a; __sync_fetch_and_add(&occ_arrived, 1);
  double t0 = sq_now();
  while (occ_arrived < occ_need && sq_now() - t0 < 20.0) { /* spin without yielding: only another worker can run the others */ }
  return (void *)(long)(occ_arrived >= occ_need);
}
static int occupy_all_workers(int nw) {
  myth_thread_t th[8]; occ_arrived = 0; occ_need = nw; int together = 0;
  for (int i = 0; i < nw; i++) th[i] = myth_create(occ_body, 0);
  for (int i = 0; i < nw; i++) { void * r = 0; myth_join(th[i], &r); if (r) together++; }
  return together;   /* number of threads that saw all nw of them running at the same time */
}
static const char * const OPN[] = { "init_ex(1)", "init_ex(2)", "init_ex(3)", "create+join", "fini", "query", "init()" };
typedef struct { pid_t pid; int fd; int ops[8]; int n; double t0; } inflight_t;
static void start_hist(inflight_t * f, const int * ops, int n) {
  int pfd[2]; if (pipe(pfd)) { f->pid = -1; return; }
  f->n = n; memcpy(f->ops, ops, sizeof(int) * n);
  pid_t pid = fork();
  if (pid == 0) {
    close(pfd[0]); alarm(180);
    setenv("MYTH_NUM_WORKERS", "2", 1);
    char m[300] = ""; int bad = 0, inited = 0, nw = 0, dflt = 2;   /* dflt: what the global attributes currently say */
    for (int i = 0; i < n && !bad; i++) {
      int op = ops[i];
      if (op <= 2) { myth_globalattr_t ga[1]; myth_globalattr_init(ga); myth_globalattr_set_n_workers(ga, op + 1); myth_globalattr_set_bind_workers(ga, 0); myth_init_ex(ga); if (!inited) { inited = 1; nw = op + 1; dflt = nw; } }
      else if (op == 6) { myth_init(); if (!inited) { inited = 1; nw = dflt; } }
      else if (op == 3) { myth_thread_t t = myth_create(nop, (void *)9); void * r = 0; myth_join(t, &r); if (!inited) { inited = 1; nw = dflt; } if (r != (void *)9) { bad = 1; snprintf(m, sizeof m, "step %d: create+join delivered %p", i, r); }
	if (!bad && nw <= 3) { int k = occupy_all_workers(nw); if (k != nw) { bad = 1; snprintf(m, sizeof m, "step %d: %d workers requested, but only %d of %d spinning threads ever saw all of them running at once (some workers do not schedule)", i, nw, k, nw); } } }
      else if (op == 4) { myth_fini(); if (inited) { inited = 0; int c = count_os_threads(); if (c != 1) { bad = 1; snprintf(m, sizeof m, "step %d: %d OS threads remain after myth_fini", i, c); } } }
      else { int q = myth_get_num_workers(); if (!inited) { inited = 1; nw = dflt; } int w = myth_get_worker_num(); if (q != nw || w < 0 || w >= q) { bad = 1; snprintf(m, sizeof m, "step %d: num_workers=%d (requested %d), worker_num=%d", i, q, nw, w); } }
      if (!bad && inited) { int q = myth_get_num_workers(); if (q != nw) { bad = 1; snprintf(m, sizeof m, "step %d (%s): runs with %d workers, requested %d", i, OPN[op], q, nw); } }
    }
    if (write(pfd[1], m, strlen(m) + 1) < 0) {}
    _exit(bad);
  }
  close(pfd[1]); f->pid = pid; f->fd = pfd[0]; f->t0 = sq_now();
}
static int collect_hist(inflight_t * f, char * msg, size_t msz) {
  /* the histories of one batch run side by side: the limit counts from the start of the history, not from the moment its turn to be collected comes */
  double left = 60.0 - (sq_now() - f->t0); if (left < 2) left = 2;
  int st; int hung = sq_wait_child(f->pid, left, &st);
  ssize_t k = read(f->fd, msg, msz - 1); if (k < 0) k = 0; msg[k] = 0; close(f->fd);
  if (hung) { snprintf(msg, msz, "history hangs"); return 1; }
  if (WIFSIGNALED(st)) { snprintf(msg, msz, "%s", WTERMSIG(st) == SIGALRM ? "history hangs" : "history crashes"); return 1; }
  return WEXITSTATUS(st);
}
static long hist_cases;
static void hist_drain(inflight_t * fl, int * nfl) {
  for (int j = 0; j < *nfl; j++) {
    inflight_t * f = &fl[j]; char msg[300]; int r = collect_hist(f, msg, sizeof msg);
    hist_cases++; SQ.states++; SQ.evaluations++; SQ.transitions += f->n;
    if (r && SQ.nfound < 16) { char key[200]; int o = snprintf(key, sizeof key, "history:"); for (int i = 0; i < f->n; i++) o += snprintf(key + o, sizeof key - o, " %s", OPN[f->ops[i]]); sq_found(key, "", "%s", msg); }
    if (hist_cases == 200) { char key[200]; int o = 0; for (int i = 0; i < f->n; i++) o += snprintf(key + o, sizeof key - o, "%s; ", OPN[f->ops[i]]); sq_sample("history %s", key); }
  }
  *nfl = 0;
}
static void hist_all(int depth) {
  int ops[8]; int idx[8]; static inflight_t fl[12]; int nfl = 0;
  for (int len = 1; len <= depth; len++) {
    memset(idx, 0, sizeof idx);
    for (;;) {
      for (int i = 0; i < len; i++) ops[i] = idx[i];
      if (SQ.nfound >= 8) { SQ.exhaustive = 0; goto done; }    /* enough counterexamples: stop enumerating (hanging histories are slow) */
      if (nfl == 12) hist_drain(fl, &nfl);
      start_hist(&fl[nfl++], ops, len);
      int k = len - 1; while (k >= 0 && ++idx[k] == 7) { idx[k] = 0; k--; }
      if (k < 0) break;
    }
  }
done:
  hist_drain(fl, &nfl);
  if (SQ.nfound >= 8) return;
  /* every worker count 1..64 once */
  for (int nw = 1; nw <= 64; nw++) {
    pid_t pid = fork();
    if (pid == 0) { alarm(180); myth_globalattr_t ga[1]; myth_globalattr_init(ga); myth_globalattr_set_n_workers(ga, nw); myth_globalattr_set_bind_workers(ga, 0); myth_init_ex(ga);
      int ok = myth_get_num_workers() == nw; myth_thread_t t = myth_create(nop, 0); myth_join(t, 0); int w = myth_get_worker_num(); ok = ok && w >= 0 && w < nw; myth_fini(); ok = ok && count_os_threads() == 1; _exit(ok ? 0 : 1); }
    int st; int hung = sq_wait_child(pid, 150, &st); SQ.states++; SQ.evaluations++; SQ.transitions += 4;
    if (hung || !WIFEXITED(st) || WEXITSTATUS(st)) { char key[60]; snprintf(key, sizeof key, "n_workers=%d via attribute", nw); sq_found(key, "", "init/run/fini with %d workers failed", nw); }
  }
  /* long histories in one process ("arbitrarily long init/fini histories"): anything that accumulates over cycles shows only here */
  for (int bind = 0; bind < 2; bind++) {
    int cycles = bind ? 150 : (depth >= 5 ? 600 : 300);
    int pfd[2]; if (pipe(pfd)) continue;
    fflush(NULL);
    pid_t pid = fork();
    if (pid == 0) {
      close(pfd[0]); char m[200] = ""; int bad = 0;
      for (int i = 0; i < cycles && !bad; i++) {
	int nw = 1 + i % 3;
	myth_globalattr_t ga[1]; myth_globalattr_init(ga); myth_globalattr_set_n_workers(ga, nw); myth_globalattr_set_bind_workers(ga, bind);
	myth_init_ex(ga);
	int q = myth_get_num_workers(), w = myth_get_worker_num();
	if (q != nw || w < 0 || w >= q) { bad = 1; snprintf(m, sizeof m, "cycle %d: runs with %d workers (worker_num %d), requested %d", i, q, w, nw); break; }
	myth_thread_t t = myth_create(nop, (void *)9); void * r = 0; myth_join(t, &r);
	if (r != (void *)9) { bad = 1; snprintf(m, sizeof m, "cycle %d: create+join delivered %p", i, r); break; }
	myth_fini();
      }
      if (!bad) { int c = count_os_threads(); if (c != 1) { bad = 1; snprintf(m, sizeof m, "%d OS threads remain after %d init/fini cycles", c, cycles); } }
      if (write(pfd[1], m, strlen(m) + 1) < 0) {}
      _exit(bad);
    }
    close(pfd[1]);
    int st; int hung = sq_wait_child(pid, 200, &st); char msg[300] = ""; ssize_t k = read(pfd[0], msg, sizeof msg - 1); if (k < 0) k = 0; msg[k] = 0; close(pfd[0]);
    SQ.states++; SQ.evaluations++; SQ.transitions += 4 * cycles;
    if (hung || !WIFEXITED(st) || WEXITSTATUS(st)) {
      char key[100]; snprintf(key, sizeof key, "long history: %d cycles of init_ex(1..3 workers, bind_workers=%d) create+join fini in one process", cycles, bind);
      sq_found(key, "", "%s", hung ? "the history hangs" : !WIFEXITED(st) ? "the process crashes (memory overwritten by an earlier cycle?)" : msg);
    }
  }
  sq_detail("%ld init/fini histories to depth %d + worker counts 1..64 + two long histories (300/600 and 150 cycles in one process); ", hist_cases, depth);
}

/* the NULL-attribute ("global") setters before or after initialisation, mixed with the other attribute calls a program makes: the
   requested worker count must survive them */
static void global_attr_cases(void) {
  long cases = 0;
  for (int nw = 1; nw <= 3; nw++) for (int mode = 0; mode < 3; mode++) {
    int pfd[2]; if (pipe(pfd)) continue; fflush(NULL);
    pid_t pid = fork();
    if (pid == 0) {
      close(pfd[0]); char m[200] = ""; int bad = 0;
      setenv("MYTH_NUM_WORKERS", "5", 1);                       /* the environment says something else */
      myth_globalattr_set_n_workers(NULL, nw); myth_globalattr_set_bind_workers(NULL, 0);
      myth_thread_attr_t a; memset(&a, 0x5A, sizeof a);
      if (mode == 0) myth_thread_attr_init(&a);                  /* before initialisation */
      myth_init();
      if (mode == 1) myth_thread_attr_init(&a);                  /* after initialisation */
      if (mode == 2) { size_t g = 0, ss = 0; int cf = 0; myth_globalattr_get_guardsize(NULL, &g); myth_globalattr_get_stacksize(NULL, &ss); myth_globalattr_get_child_first(NULL, &cf); myth_thread_attr_init(&a); }
      int q = myth_get_num_workers(), w = myth_get_worker_num();
      if (q != nw || w < 0 || w >= q) { bad = 1; snprintf(m, sizeof m, "runs with %d workers (worker_num %d), %d were requested with myth_globalattr_set_n_workers(NULL, %d)", q, w, nw, nw); }
      if (!bad) { myth_thread_t t; void * r = 0; myth_create_ex(&t, &a, nop, (void *)9); myth_join(t, &r); if (r != (void *)9) { bad = 1; snprintf(m, sizeof m, "create through the attribute object + join delivered %p", r); } }
      if (!bad) { int k = occupy_all_workers(nw); if (k != nw) { bad = 1; snprintf(m, sizeof m, "%d workers requested, only %d of %d spinning threads saw all of them running", nw, k, nw); } }
      if (!bad) { myth_fini(); int c = count_os_threads(); if (c != 1) { bad = 1; snprintf(m, sizeof m, "%d OS threads remain after myth_fini", c); } }
      if (write(pfd[1], m, strlen(m) + 1) < 0) {}
      _exit(bad);
    }
    close(pfd[1]);
    int st; int hung = sq_wait_child(pid, 90, &st); char msg[300] = ""; ssize_t k = read(pfd[0], msg, sizeof msg - 1); if (k < 0) k = 0; msg[k] = 0; close(pfd[0]);
    cases++; SQ.states++; SQ.evaluations++; SQ.transitions += 6;
    if (hung || !WIFEXITED(st) || WEXITSTATUS(st)) {
      char key[160]; snprintf(key, sizeof key, "global attributes: set_n_workers(NULL, %d) with MYTH_NUM_WORKERS=5, thread attribute object initialised %s", nw, mode == 0 ? "before myth_init" : mode == 1 ? "after myth_init" : "after myth_init and three global getters");
      sq_found(key, "", "%s", hung ? "the process hangs" : !WIFEXITED(st) ? "the process crashes" : msg);
    }
  }
  sq_detail("%ld global-attribute cases; ", cases);
}

/* first use: whatever the first library call of a process (and the first call after myth_fini) is, it initialises the library */
static void first_use_cases(void) {
  static const char * const NM[] = { "myth_create", "myth_yield", "myth_yield_ex(steal_first)", "myth_usleep(1)", "myth_sleep(0)", "myth_nanosleep(1 ns)", "myth_get_num_workers", "myth_get_worker_num",
				       "myth_self", "myth_key_create", "myth_mutex_init+lock", "myth_barrier_init(1)+wait", "myth_cond_signal / broadcast without waiter",
				       "myth_join_counter_init(1)+dec+wait", "myth_felock_wait_and_lock(0)+mark_and_signal(1)", "myth_uncond_init" };
  long cases = 0;
  for (int fc = 0; fc < 16; fc++) for (int after_fini = 0; after_fini < 2; after_fini++) {
    int pfd[2]; if (pipe(pfd)) continue; fflush(NULL);
    pid_t pid = fork();
    if (pid == 0) {
      close(pfd[0]); char m[200] = ""; int bad = 0;
      setenv("MYTH_NUM_WORKERS", "2", 1); setenv("MYTH_BIND_WORKERS", "0", 1);
      if (after_fini) { myth_init(); myth_thread_t t = myth_create(nop, (void *)9); myth_join(t, 0); myth_fini(); }
      switch (fc) {
      case 0: { myth_thread_t t = myth_create(nop, (void *)9); void * r = 0; myth_join(t, &r); if (r != (void *)9) bad = 1; break; }
      case 1: myth_yield(); break;
      case 2: myth_yield_ex(myth_yield_option_steal_first); break;
      case 3: if (myth_usleep(1) != 0) bad = 1; break;
      case 4: if (myth_sleep(0) != 0) bad = 1; break;
      case 5: { struct timespec rq = { 0, 1 }; if (myth_nanosleep(&rq, 0) != 0) bad = 1; break; }
      case 6: if (myth_get_num_workers() != 2) bad = 1; break;
      case 7: if (myth_get_worker_num() != 0) bad = 1; break;
      case 8: if (myth_self() == 0) bad = 1; break;
      case 9: { myth_key_t k; if (myth_key_create(&k, 0) != 0) bad = 1; break; }
      case 10: { static myth_mutex_t mm; myth_mutex_init(&mm, 0); if (myth_mutex_lock(&mm) != 0 || myth_mutex_unlock(&mm) != 0) bad = 1; break; }
      case 11: { static myth_barrier_t bb; myth_barrier_init(&bb, 0, 1); if (myth_barrier_wait(&bb) != MYTH_BARRIER_SERIAL_THREAD) bad = 1; break; }
      case 12: { static myth_cond_t cc; myth_cond_init(&cc, 0); if (myth_cond_signal(&cc) != 0 || myth_cond_broadcast(&cc) != 0) bad = 1; break; }
      case 13: { static myth_join_counter_t jj; myth_join_counter_init(&jj, 0, 1); myth_join_counter_dec(&jj); myth_join_counter_wait(&jj); break; }
      case 14: { static myth_felock_t ff; myth_felock_init(&ff, 0); if (myth_felock_wait_and_lock(&ff, 0) != 0 || myth_felock_mark_and_signal(&ff, 1) != 0 || myth_felock_status(&ff) != 1) bad = 1; break; }
      default: { static myth_uncond_t uu; myth_uncond_init(&uu); break; }   /* signalling an uncondition variable nobody waits on is outside its protocol: initialisation only */
      }
      if (bad) snprintf(m, sizeof m, "the call itself returned a wrong value");
      if (!bad) { int q = myth_get_num_workers(), w = myth_get_worker_num(); if (q != 2 || w < 0 || w >= q) { bad = 1; snprintf(m, sizeof m, "after it the library runs with %d workers (worker_num %d), MYTH_NUM_WORKERS=2", q, w); } }
      if (!bad) { myth_thread_t t = myth_create(nop, (void *)9); void * r = 0; myth_join(t, &r); if (r != (void *)9) { bad = 1; snprintf(m, sizeof m, "create+join afterwards delivered %p", r); } }
      if (!bad) { myth_fini(); int c = count_os_threads(); if (c != 1) { bad = 1; snprintf(m, sizeof m, "%d OS threads remain after myth_fini", c); } }
      if (write(pfd[1], m, strlen(m) + 1) < 0) {}
      _exit(bad);
    }
    close(pfd[1]);
    int st; int hung = sq_wait_child(pid, 60, &st); char msg[300] = ""; ssize_t k = read(pfd[0], msg, sizeof msg - 1); if (k < 0) k = 0; msg[k] = 0; close(pfd[0]);
    cases++; SQ.states++; SQ.evaluations++; SQ.transitions += 5;
    if (hung || !WIFEXITED(st) || WEXITSTATUS(st)) {
      char key[160]; snprintf(key, sizeof key, "first use: %s as the first library call %s", NM[fc], after_fini ? "after init + fini" : "of the process");
      sq_found(key, "", "%s", hung ? "the process hangs" : !WIFEXITED(st) ? "the process crashes (the call does not initialise the library)" : msg[0] ? msg : "the process exited with a failure status inside the library (an assertion of the library, or its own fatal diagnostic)");
    }
  }
  sq_detail("%ld first-use cases; ", cases);
}

/* the CPU table is rebuilt at every initialisation: building it again must give the table of the first time (a differential oracle: the
   state reached from the initial state vs. the state reached from an initialised one), for as many initialisations as one likes */
static void cpu_table_histories(int cycles) {
  static const char * const lists[] = { 0, "0", "0-3", "0,2" };
  for (unsigned v = 0; v < sizeof lists / sizeof lists[0]; v++) {
    if (lists[v]) setenv("MYTH_CPU_LIST", lists[v], 1); else unsetenv("MYTH_CPU_LIST");
    n_available_cpus = -1;
    int first_n = -1, first_cpu[8]; char key[120];
    snprintf(key, sizeof key, "CPU table rebuilt %d times, MYTH_CPU_LIST=%s", cycles, lists[v] ? lists[v] : "(unset)");
    for (int i = 0; i < cycles; i++) {
      int crashed = 0;
      trapping = 1;
      if (sigsetjmp(trap, 1) == 0) myth_get_available_cpus(); else crashed = 1;
      trapping = 0;
      SQ.transitions++;
      if (crashed) { sq_found(key, "", "rebuild #%d aborts: %s", i, trap_msg); break; }
      if (i == 0) { first_n = n_available_cpus; for (int r = 0; r < 8; r++) first_cpu[r] = myth_get_worker_cpu(r); continue; }
      if (n_available_cpus != first_n || n_available_cpus > N_MAX_CPUS) { sq_found(key, "", "the table holds %d CPUs after rebuild #%d, %d after the first (entries accumulate across initialisations; the table has room for %d)", n_available_cpus, i, first_n, N_MAX_CPUS); break; }
      int diff = 0; for (int r = 0; r < 8; r++) if (myth_get_worker_cpu(r) != first_cpu[r]) diff = 1;
      if (diff) { sq_found(key, "", "worker-to-CPU assignment after rebuild #%d differs from the first", i); break; }
    }
    SQ.states++; SQ.evaluations++;
  }
  unsetenv("MYTH_CPU_LIST");
  sq_detail("CPU table rebuilt %d times x 4 CPU lists; ", cycles);
}

int main(int argc, char ** argv) {
  const char * stats = "build/c15/stats.json"; int tier = 0; const char * part = "all";
  for (int i = 1; i < argc; i++) { if (!strcmp(argv[i], "--stats")) stats = argv[++i]; else if (!strcmp(argv[i], "--tier")) tier = !strcmp(argv[++i], "thorough"); else if (!strcmp(argv[i], "--part")) part = argv[++i]; }
  sq_begin("C15", "c15", "E3 seqmc (bounded exhaustive inputs / histories vs reference recogniser and model)", "replays", argv[0]);
  if (!freopen("/dev/null", "w", stderr)) {}
  if (!strcmp(part, "all") || !strcmp(part, "parser")) { parser_all(tier ? 6 : 5); cpu_table_histories(tier ? 400 : 100); }
  if (!strcmp(part, "all") || !strcmp(part, "env")) {
    env_var("MYTH_NUM_WORKERS", 3); env_var("MYTH_DEF_STKSIZE", tier ? 3 : 2); env_var("MYTH_BIND_WORKERS", 2);
    static const char * const lists[] = { "", "0", "0-3", "\n", "0,\n", "0\n", "x", "0-", "0-3:0", "99999", "0-2000", 0 };
    for (int i = 0; lists[i]; i++) { int nw, rc = run_env("MYTH_CPU_LIST", lists[i], &nw); env_cases++; SQ.states++; SQ.evaluations++;
      if (rc || nw != 2) { char key[80]; snprintf(key, sizeof key, "MYTH_CPU_LIST=\"%s\" with MYTH_BIND_WORKERS=1", lists[i][0] == '\n' ? "\\n" : lists[i]); if (lists[i][1] == '\n') snprintf(key, sizeof key, "MYTH_CPU_LIST=\"0,\\n\" with MYTH_BIND_WORKERS=1"); sq_found(key, "", "%s", rc ? "process crashed or hung at initialisation" : "wrong worker count"); } }
    sq_detail("%ld environment-value processes; ", env_cases);
  }
  if (!strcmp(part, "all") || !strcmp(part, "hist")) { global_attr_cases(); first_use_cases(); hist_all(tier ? 5 : 4); }
  SQ.distinct = SQ.states;
  return sq_end(stats);
}
