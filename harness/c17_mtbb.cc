/* C17 (C++ part) --- mtbb::task_group and mtbb::parallel_for equal the sequential loop. */
extern "C" {
#include "hcommon.h"
}
#include <mtbb/task_group.h>
#include <mtbb/parallel_for.h>

enum { FM_TG, FM_PF2, FM_PF3, FM_PFG, FM_TGF, FM_RANGE };
typedef struct { int fam, a, b, c, d, W, K; } prog_t;
#define MAXP 3000
static prog_t P[2][MAXP]; static int NP[2];
static void add(int tier, int fam, int a, int b, int c, int d, int W, int K) { if (NP[tier] < MAXP) { prog_t * p = &P[tier][NP[tier]++]; p->fam = fam; p->a = a; p->b = b; p->c = c; p->d = d; p->W = W; p->K = K; } }
static void build(void) {
  static int built; if (built) return; built = 1;
  for (int tier = 0; tier < 2; tier++) for (int W = 1; W <= 2; W++) {
    /* task_group: n run() calls (inline capacity of the task list is 8), wait, then m more and wait again */
    for (int n = 0; n <= (tier ? 12 : 10); n++) { int K = n <= 2 ? 2 : (n <= 4 ? 1 : 0); if (tier && n <= 3) K = 3; add(tier, FM_TG, n, n > 8 ? 1 : n % 3, 0, 0, W, W == 1 ? (K ? 1 : 0) : K); }
    /* task_group with closures of 48 bytes: the 256-byte chunks of the group's task memory overflow after a handful of run() calls, more than once */
    for (int n = 4; n <= (tier ? 18 : 14); n++) add(tier, FM_TGF, n, n % 4, 0, 0, W, (n <= 7 && W == 2) ? 1 : 0);
    /* range-based parallel_for over a Range class with 32-bit unsigned / int indices: small ranges, and ranges high in the index space (begin + end does not fit) */
    for (int base = 0; base < 4; base++) for (int len = 0; len <= (tier ? 9 : 7); len++) for (int g = 1; g <= 3; g += 2) add(tier, FM_RANGE, base, len, g, 0, W, (len <= 3 && W == 2) ? 1 : 0);
    /* parallel_for(first, last): all first, last in -2..5 */
    for (int f = -2; f <= (tier ? 5 : 4); f++) for (int l = -2; l <= (tier ? 5 : 4); l++) { int len = l - f; int K = len <= 2 ? (tier ? 2 : 1) : (len <= 3 ? 1 : 0); add(tier, FM_PF2, f, l, 1, 0, W, W == 1 ? 0 : K); }
    /* parallel_for(first, last, step) */
    for (int f = -2; f <= 3; f++) for (int l = -2; l <= 5; l++) for (int s = 2; s <= 3; s++) { if (!tier && (f & 1)) continue; add(tier, FM_PF3, f, l, s, 0, W, W == 1 ? 0 : ((l - f) <= 4 ? 1 : 0)); }
    /* parallel_for(first, last, step, grainsize) */
    for (int f = -1; f <= 2; f++) for (int l = -2; l <= 5; l++) for (int s = 1; s <= (tier ? 3 : 2); s++) for (int g = 1; g <= 3; g++) { if (!tier && ((f + l + g) & 1)) continue; add(tier, FM_PFG, f, l, s, g, W, W == 1 ? 0 : ((l - f) <= 3 ? 1 : 0)); }
  }
}
static int nprogs(int tier) { build(); return NP[tier]; }
static void config(int tier, int prog, int * W, int * K) { build(); *W = P[tier][prog].W; *K = P[tier][prog].K; }
static void describe(int tier, int prog, char * b, size_t n) {
  build(); prog_t * p = &P[tier][prog];
  switch (p->fam) {
  case FM_TG: snprintf(b, n, "task_group: %d run() calls, wait, %d more, wait", p->a, p->b); break;
  case FM_RANGE: { static const char * const bs[] = { "unsigned 0", "unsigned 2147483640", "unsigned 4294967280", "int 2147483630" }; snprintf(b, n, "parallel_for(Range [%s, +%d), grain %d, body)", bs[p->a], p->b, p->c); break; }
  case FM_TGF: snprintf(b, n, "task_group: %d run() calls with 48-byte closures, wait, %d more, wait", p->a, p->b); break;
  case FM_PF2: snprintf(b, n, "parallel_for(first=%d, last=%d)", p->a, p->b); break;
  case FM_PF3: snprintf(b, n, "parallel_for(first=%d, last=%d, step=%d)", p->a, p->b, p->c); break;
  default: snprintf(b, n, "parallel_for(first=%d, last=%d, step=%d, grainsize=%d)", p->a, p->b, p->c, p->d); break;
  }
}
static prog_t * cur;
static volatile int hit[64];   /* index i is recorded at hit[i + 8] */
static volatile int tasks_done;
struct IndexBody { void operator()(int i) const { if (i < -8 || i >= 56) mv_fail("body called with index %d far outside the range", i); hit[i + 8]++; } };
struct RangeBody { void operator()(int a, int b) const { for (int i = a; i < b; i++) { if (i < -8 || i >= 56) mv_fail("body called with sub-range [%d,%d) far outside the range", a, b); hit[i + 8]++; } } };
/* a Range in the sense of parallel_for(const Range &, Body &): begin/end/grainsize, empty, is_divisible, three-argument constructor */
template <typename T> struct MyRange {
  T b_, e_, g_;
  MyRange(T b, T e, T g) : b_(b), e_(e), g_(g) {}
  T begin() const { return b_; } T end() const { return e_; } T grainsize() const { return g_; }
  bool empty() const { return !(b_ < e_); } bool is_divisible() const { return g_ < (T)(e_ - b_); }
};
static volatile int rhit[32]; static volatile int rbad;
template <typename T> struct RBody { T base; int len; void operator()(const MyRange<T> & r) const {
  if (r.begin() < base || r.end() > (T)(base + (T)len) || r.end() < r.begin()) { rbad++; return; }
  for (T i = r.begin(); i < r.end(); i++) rhit[(int)(i - base)]++; } };
template <typename T> static void run_range(T base, int len, int grain) {
  MyRange<T> r(base, (T)(base + (T)len), (T)grain); RBody<T> body; body.base = base; body.len = len;
  mtbb::parallel_for(r, body);
  if (rbad) mv_fail("the body was handed a sub-range outside [base, base+%d) %d time(s)", len, rbad);
  for (int i = 0; i < 32; i++) if (rhit[i] != (i < len ? 1 : 0)) mv_fail("index base+%d was visited %d time(s), the sequential loop visits it %d time(s)", i, rhit[i], i < len ? 1 : 0);
}
struct FatTask { int id; unsigned char pad[44]; void operator()() const { for (int k = 0; k < 44; k++) if (pad[k] != (unsigned char)(id * 3 + k)) mv_fail("task %d: its closure was overwritten (byte %d) before it ran: two tasks share memory", id, k); if (id & 1) myth_yield(); hit[id]++; } };
struct Task { int id; void operator()() const { if (id & 1) myth_yield(); tasks_done += 1 << 0; hit[id]++; } };

static void check_loop(int first, int last, int step) {
  int want[64]; memset(want, 0, sizeof want);
  for (int i = first; i < last; i += step) want[i + 8]++;
  for (int i = 0; i < 64; i++) if (hit[i] != want[i]) mv_fail("index %d: body ran %d time(s), the sequential loop runs it %d time(s)", i - 8, hit[i], want[i]);
}

static void run(int tier, int prog) {
  build(); cur = &P[tier][prog];
  mv_start(cur->W);
  switch (cur->fam) {
  case FM_TG: {
    mtbb::task_group tg;
    for (int i = 0; i < cur->a; i++) { Task t; t.id = i; tg.run(t); }
    tg.wait();
    for (int i = 0; i < cur->a; i++) if (hit[i] != 1) mv_fail("task %d had run %d time(s) when wait() returned", i, hit[i]);
    for (int i = 0; i < cur->b; i++) { Task t; t.id = 20 + i; tg.run(t); }
    tg.wait();
    for (int i = 0; i < cur->b; i++) if (hit[20 + i] != 1) mv_fail("second batch: task %d had run %d time(s) when wait() returned", i, hit[20 + i]);
    for (int i = 0; i < cur->a; i++) if (hit[i] != 1) mv_fail("task %d ran again after the first wait (count %d)", i, hit[i]);
    break; }
  case FM_RANGE:
    if (cur->a == 0) run_range<unsigned>(0u, cur->b, cur->c); else if (cur->a == 1) run_range<unsigned>(2147483640u, cur->b, cur->c);
    else if (cur->a == 2) run_range<unsigned>(4294967280u, cur->b, cur->c); else run_range<int>(2147483630, cur->b, cur->c);
    break;
  case FM_TGF: {
    mtbb::task_group tg;
    for (int i = 0; i < cur->a; i++) { FatTask t; t.id = i; for (int k = 0; k < 44; k++) t.pad[k] = (unsigned char)(i * 3 + k); tg.run(t); }
    tg.wait();
    for (int i = 0; i < cur->a; i++) if (hit[i] != 1) mv_fail("task %d had run %d time(s) when wait() returned", i, hit[i]);
    for (int i = 0; i < cur->b; i++) { FatTask t; t.id = 30 + i; for (int k = 0; k < 44; k++) t.pad[k] = (unsigned char)((30 + i) * 3 + k); tg.run(t); }
    tg.wait();
    for (int i = 0; i < cur->b; i++) if (hit[30 + i] != 1) mv_fail("second batch: task %d had run %d time(s) when wait() returned", i, hit[30 + i]);
    for (int i = 0; i < cur->a; i++) if (hit[i] != 1) mv_fail("task %d ran again after the first wait (count %d)", i, hit[i]);
    break; }
  case FM_PF2: mtbb::parallel_for(cur->a, cur->b, IndexBody()); check_loop(cur->a, cur->b, 1); break;
  case FM_PF3: mtbb::parallel_for(cur->a, cur->b, cur->c, IndexBody()); check_loop(cur->a, cur->b, cur->c); break;
  default: mtbb::parallel_for(cur->a, cur->b, cur->c, cur->d, RangeBody());
    { /* the grain-size form hands out sub-ranges in units of `step`: index i of the loop is first + k*step */
      int want[64]; memset(want, 0, sizeof want);
      int cnt = (cur->b - cur->a + cur->c - 1) / cur->c;
      /* a body invoked with [first + a*step, first + b*step) iterates every integer in between */
      if (cnt > 0) for (int i = cur->a; i < cur->a + cnt * cur->c; i++) want[i + 8]++;
      for (int i = 0; i < 64; i++) if (hit[i] != want[i]) mv_fail("index %d: covered %d time(s) by the sub-ranges handed to the body, expected %d", i - 8, hit[i], want[i]);
    }
    break;
  }
  mv_obs("ok");
  mv_finish();
}
static uint64_t cover_required(int tier) { (void)tier; return 0; }
extern "C" { mc_harness_t mc_harness = { "C17", "mtbb", nprogs, describe, config, run, 0, cover_required }; }
