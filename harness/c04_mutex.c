/* C04 --- mutex: mutual exclusion, no lost wake-up, non-blocking trylock, blocked threads free their worker.
 *
 * Programs: 2-3 threads, each a sequence over
 *   L  lock; cs; unlock            Y  lock; cs containing a yield; unlock
 *   T  trylock ? cs; unlock        D  timedlock(now + 4 ticks) ? cs; unlock
 * on one mutex, plus (some programs) a bystander thread that must be able to run while others are blocked.
 */
#include "hcommon.h"

typedef struct { int nth; char seq[3][4]; int bystander; int W, K; } prog_t;
#define MAXP 3000
static prog_t P[2][MAXP]; static int NP[2];

static void add(int tier, int nth, const char * s0, const char * s1, const char * s2, int by, int W, int K) {
  if (NP[tier] >= MAXP) return;
  prog_t * p = &P[tier][NP[tier]++]; memset(p, 0, sizeof *p);
  p->nth = nth; strcpy(p->seq[0], s0); strcpy(p->seq[1], s1); if (s2) strcpy(p->seq[2], s2);
  p->bystander = by; p->W = W; p->K = K;
}

static const char * const SEQ1[] = { "L", "Y", "T", "D" };
static const char * const SEQ2[] = { "LL", "LY", "YL", "YT", "TY", "TT", "LT", "TL", "YY", "DY", "YD", "LD" };

static void build(void) {
  static int built; if (built) return; built = 1;
  for (int tier = 0; tier < 2; tier++) {
    int K = tier ? 3 : 2;
    for (int a = 0; a < 4; a++) for (int b = a; b < 4; b++) {
      add(tier, 2, SEQ1[a], SEQ1[b], 0, 0, 2, K);
      add(tier, 2, SEQ1[a], SEQ1[b], 0, 0, 1, K);
    }
    for (int a = 0; a < 12; a++) for (int b = 0; b < (tier ? 12 : 4); b++) {
      const char * sb = b < 4 ? SEQ1[b] : SEQ2[b];
      if (b >= 4 && b < a) continue;
      add(tier, 2, SEQ2[a], sb, 0, 0, 2, 2);
      if (tier) add(tier, 2, SEQ2[a], sb, 0, 0, 1, 2);
    }
    /* three contenders */
    for (int a = 0; a < 4; a++) for (int b = a; b < 4; b++) for (int c = b; c < 4; c++) {
      if (!tier && (a == 2 || a == 3) && b == a && c == a) continue;
      add(tier, 3, SEQ1[a], SEQ1[b], SEQ1[c], 0, 2, tier ? 2 : 1);
      if (tier) add(tier, 3, SEQ1[a], SEQ1[b], SEQ1[c], 0, 3, 2);
    }
    /* one worker, three contenders: whoever cannot get the mutex must give the worker back (a contender that
       busy-waits instead of blocking starves the holder for ever) */
    add(tier, 3, "Y", "L", "L", 0, 1, tier ? 2 : 1); add(tier, 3, "Y", "Y", "L", 0, 1, 1); add(tier, 3, "L", "Y", "T", 0, 1, 1); add(tier, 3, "Y", "L", "D", 0, 1, 1);
    /* bystander must make progress while a contender is blocked */
    add(tier, 2, "Y", "L", 0, 1, 1, K); add(tier, 2, "Y", "L", 0, 1, 2, 2); add(tier, 2, "YY", "LL", 0, 1, 1, 2);
    add(tier, 2, "Y", "LT", 0, 1, 2, tier ? 2 : 1);
  }
}
static int nprogs(int tier) { build(); return NP[tier]; }
static void config(int tier, int prog, int * W, int * K) { build(); *W = P[tier][prog].W; *K = P[tier][prog].K; }
static void describe(int tier, int prog, char * b, size_t n) {
  build(); prog_t * p = &P[tier][prog];
  int o = snprintf(b, n, "mutex:");
  for (int i = 0; i < p->nth; i++) o += snprintf(b + o, n - o, " t%d=%s", i, p->seq[i]);
  if (p->bystander) snprintf(b + o, n - o, " +bystander");
}

static prog_t * cur;
static myth_mutex_t mtx;
static volatile int occ, busy, starts, acquired[3], tried[3], ebusy[3], timedout[3];
static volatile int blocked_seen, by_progress, by_stop, trying;
/* on one worker nobody else can run while a thread is inside a call that never blocks or yields */
static void nobody_inside_trylock(const char * where) { if (cur->W == 1) MV_CHECK(trying == 0, "%s: another thread ran on the only worker while a thread was inside myth_mutex_trylock (trylock gave up the worker: it blocked or yielded)", where); }

static void cs(int me, int with_yield) {
  nobody_inside_trylock("critical section");
  occ++;
  mv_point(&occ, sizeof occ);
  MV_CHECK(occ == 1, "two threads inside the critical section (occupancy %d, t%d just entered)", occ, me);
  if (with_yield) { myth_yield(); nobody_inside_trylock("after yield"); MV_CHECK(occ == 1, "another thread entered the critical section while t%d held the mutex across a yield (occupancy %d)", me, occ); }
  acquired[me]++;
  occ--;
}

static void * contender(void * a) {
  int me = (int)(long)a;
  for (const char * s = cur->seq[me]; *s; s++) {
    int r;
    switch (*s) {
    case 'L': case 'Y':
      busy++; starts++;
      r = myth_mutex_lock(&mtx);
      MV_CHECK(r == 0, "myth_mutex_lock returned %d", r);
      cs(me, *s == 'Y');
      r = myth_mutex_unlock(&mtx);
      busy--;
      break;
    case 'T': {
      int busy0 = busy, starts0 = starts; long steps0 = mv_steps();
      busy++; starts++;
      tried[me]++;
      nobody_inside_trylock("before trylock");
      trying++;
      r = myth_mutex_trylock(&mtx);
      trying--;
      MV_CHECK(r == 0 || r == EBUSY, "myth_mutex_trylock returned %d", r);
      if (r == EBUSY) {
	ebusy[me]++; mv_cover(1);
	MV_CHECK(!(busy0 == 0 && starts == starts0 + 1), "trylock reported EBUSY although no thread held or was acquiring the mutex at any instant of the call");
	busy--;
      } else { mv_cover(0); cs(me, 0); myth_mutex_unlock(&mtx); busy--; }
      (void)steps0;
      break; }
    case 'D': {
      struct timespec dl, t_start; mv_clock_read(&dl); t_start = dl;
      dl.tv_nsec += 4000; /* four ticks of the virtual clock */
      busy++; starts++;
      r = myth_mutex_timedlock(&mtx, &dl);
      MV_CHECK(r == 0 || r == ETIMEDOUT, "myth_mutex_timedlock returned %d", r);
      if (r == ETIMEDOUT) {
	struct timespec nowts; mv_clock_read(&nowts);
	timedout[me]++; mv_cover(3);
	MV_CHECK(nowts.tv_sec > dl.tv_sec || (nowts.tv_sec == dl.tv_sec && nowts.tv_nsec > dl.tv_nsec), "timedlock gave up before its deadline");
	/* one worker, the only other contender holds the mutex across one yield: each round of the timed wait must hand the
	   worker to that runnable holder, so (without a clock jump) an attempt before the deadline finds the mutex free */
	MV_CHECK(!(cur->W == 1 && cur->nth == 2 && !cur->bystander && !strcmp(cur->seq[1 - me], "Y") && !strcmp(cur->seq[me], "D") && nowts.tv_sec == t_start.tv_sec),
		 "timedlock timed out on one worker although the runnable holder only needed the worker once to release (a waiting thread must not keep the worker to itself)");
	busy--;
      } else { mv_cover(2); cs(me, 0); myth_mutex_unlock(&mtx); busy--; }
      break; }
    }
  }
  return 0;
}

static void * bystander(void * a) {
  (void)a;
  while (!by_stop) { by_progress++; mv_wait_until_changed(&by_stop, sizeof by_stop); }
  return 0;
}

static void run(int tier, int prog) {
  build(); cur = &P[tier][prog];
  mv_start(cur->W);
  h_maybe_custom_steal(prog, cur->W);
  h_mutex_init(&mtx, prog & 1);
  static h_sentinel_t sent; h_sentinel_start(&sent, 4, prog);
  static h_bystander_t byst; h_bystander_start(&byst, prog, cur->W);
  myth_thread_t th[3], by = 0;
  if (cur->bystander) by = myth_create(bystander, 0);
  for (int i = 0; i < cur->nth; i++) th[i] = myth_create(contender, (void *)(long)i);
  for (int i = 0; i < cur->nth; i++) myth_join(th[i], 0);
  if (cur->bystander) { mv_point(&by_stop, sizeof by_stop); by_stop = 1; myth_join(by, 0); MV_CHECK(by_progress > 0, "bystander never ran"); }
  int tot = 0;
  for (int i = 0; i < cur->nth; i++) {
    int want = 0; for (const char * s = cur->seq[i]; *s; s++) if (*s == 'L' || *s == 'Y') want++;
    MV_CHECK(acquired[i] >= want, "t%d completed %d critical sections, expected at least %d", i, acquired[i], want);
    MV_CHECK(acquired[i] + ebusy[i] + timedout[i] == (int)strlen(cur->seq[i]), "t%d: operations do not add up", i);
    tot += acquired[i];
  }
  MV_CHECK(mtx.state == 0, "mutex state word is %ld after all threads finished (expected 0: free, nobody waiting)", (long)mtx.state);
  MV_CHECK(mtx.sleep_q->head == 0, "a thread is still on the mutex sleep queue at the end");
  mv_obs("acq=%d,%d,%d ebusy=%d,%d,%d to=%d,%d,%d", acquired[0], acquired[1], acquired[2], ebusy[0], ebusy[1], ebusy[2], timedout[0], timedout[1], timedout[2]);
  h_bystander_finish(&byst);
  h_sentinel_finish(&sent);
  h_mutex_epilogue(&mtx, prog & 1);
  mv_finish();
}

static const char * const cover_names[] = { "trylock_success", "trylock_ebusy", "timedlock_success", "timedlock_timeout", 0 };
static uint64_t cover_required(int tier) { (void)tier; return 0xf; }
mc_harness_t mc_harness = { "C04", "mutex", nprogs, describe, config, run, cover_names, cover_required };
