/* C03 --- registers and stack contents survive every context switch and migration.
 *
 * probe_call(fn, arg, pattern) is written in assembly: it loads pattern-derived values into rbx, rbp, r12-r15,
 * calls fn(arg) -- a C function that performs exactly one switching API call -- and compares on return.
 * The thread body additionally keeps a 2 KiB pattern on its stack across the call.  The E1 runtime checks the
 * ABI stack alignment at every hook (including hooks inside context-switch callbacks and at thread entry).
 */
#include "hcommon.h"

long probe_call(void (*fn)(void *), void * arg, unsigned long pattern);
__asm__(
  ".text\n.globl probe_call\n.type probe_call,@function\nprobe_call:\n"
  "  push %rbp\n  push %rbx\n  push %r12\n  push %r13\n  push %r14\n  push %r15\n"
  "  sub $24, %rsp\n"                 /* 8 (ret) + 48 + 24 = 80: rsp is 16-byte aligned for the call */
  "  mov %rdx, (%rsp)\n"
  "  mov %rdx, %rbx\n  xor $0x11, %rbx\n"
  "  mov %rdx, %rbp\n  xor $0x22, %rbp\n"
  "  mov %rdx, %r12\n  xor $0x33, %r12\n"
  "  mov %rdx, %r13\n  xor $0x44, %r13\n"
  "  mov %rdx, %r14\n  xor $0x55, %r14\n"
  "  mov %rdx, %r15\n  xor $0x66, %r15\n"
  "  mov %rdi, %rax\n  mov %rsi, %rdi\n  call *%rax\n"
  "  mov (%rsp), %rdx\n  xor %eax, %eax\n"
  "  mov %rdx, %rcx\n  xor $0x11, %rcx\n  cmp %rcx, %rbx\n  je 1f\n  or $1, %eax\n1:\n"
  "  mov %rdx, %rcx\n  xor $0x22, %rcx\n  cmp %rcx, %rbp\n  je 2f\n  or $2, %eax\n2:\n"
  "  mov %rdx, %rcx\n  xor $0x33, %rcx\n  cmp %rcx, %r12\n  je 3f\n  or $4, %eax\n3:\n"
  "  mov %rdx, %rcx\n  xor $0x44, %rcx\n  cmp %rcx, %r13\n  je 4f\n  or $8, %eax\n4:\n"
  "  mov %rdx, %rcx\n  xor $0x55, %rcx\n  cmp %rcx, %r14\n  je 5f\n  or $16, %eax\n5:\n"
  "  mov %rdx, %rcx\n  xor $0x66, %rcx\n  cmp %rcx, %r15\n  je 6f\n  or $32, %eax\n6:\n"
  "  add $24, %rsp\n"
  "  pop %r15\n  pop %r14\n  pop %r13\n  pop %r12\n  pop %rbx\n  pop %rbp\n  ret\n"
  ".size probe_call,.-probe_call\n");

/* ops: Y yield, C create child-first + join, P create parent-first + join, M contended mutex, B barrier, W cond wait/signal pair,
   U uncond hand-off, J join of an unfinished thread */
typedef struct { int nth; char seq[3][6]; int W, K; int oddstack; } prog_t;
#define MAXP 300
static prog_t P[2][MAXP]; static int NP[2];
static void add(int tier, int nth, const char * a, const char * b, const char * c, int W, int K) {
  if (NP[tier] >= MAXP) return; prog_t * p = &P[tier][NP[tier]++]; memset(p, 0, sizeof *p);
  p->nth = nth; strcpy(p->seq[0], a); strcpy(p->seq[1], b); if (c) strcpy(p->seq[2], c); p->W = W; p->K = K; p->oddstack = 0;
}
static void build(void) {
  static int built; if (built) return; built = 1;
  static const char * const S2[][2] = { {"Y","Y"}, {"C","Y"}, {"P","Y"}, {"M","M"}, {"B","B"}, {"W","w"}, {"U","u"}, {"J","Y"}, {"CY","YC"}, {"PM","MY"}, {"BY","YB"}, {"MB","BM"}, {"CP","PC"}, {"YJ","CY"}, {0,0} };
  for (int tier = 0; tier < 2; tier++) {
    for (int i = 0; S2[i][0]; i++) for (int W = 1; W <= (tier ? 3 : 2); W++) {
      int len = strlen(S2[i][0]) + strlen(S2[i][1]);
      int K = len <= 2 ? (tier ? 3 : 2) : 2; if (W == 3) K = len <= 2 ? 2 : 1; if (!tier && len > 2 && W == 2) K = 1;
      add(tier, 2, S2[i][0], S2[i][1], 0, W, K);
    }
    /* a default stack size that is not a multiple of 16 (the library must still hand every function an ABI-aligned stack) */
    add(tier, 2, "Y", "C", 0, 2, 1); P[tier][NP[tier] - 1].oddstack = 1; add(tier, 2, "P", "M", 0, 1, 1); P[tier][NP[tier] - 1].oddstack = 1;
    add(tier, 2, "B", "B", 0, 2, 1); P[tier][NP[tier] - 1].oddstack = 1;
    /* children on stacks of a size that is not a page multiple, created and joined repeatedly (the block is recycled) next to suspended probe threads */
    /* small default stack (16 KiB) at start, children created and joined (their stacks are pooled), then the default is raised to 256 KiB */
    add(tier, 2, "CR", "Y", 0, 1, 1); P[tier][NP[tier] - 1].oddstack = 2; add(tier, 2, "CCR", "CR", 0, 2, 1); P[tier][NP[tier] - 1].oddstack = 2;
    add(tier, 2, "X", "Y", 0, 2, 2); add(tier, 2, "XC", "X", 0, 2, tier ? 2 : 1); add(tier, 2, "X", "M", 0, 1, 1);
    add(tier, 2, "H", "Y", 0, 1, 1); add(tier, 2, "Hh", "YH", 0, 2, tier ? 2 : 1); add(tier, 2, "hH", "M", 0, 2, 1);
    add(tier, 2, "OOO", "Y", 0, 1, 1); add(tier, 2, "OO", "YO", 0, 2, tier ? 2 : 1); add(tier, 3, "OO", "M", "MO", 2, 1);
    /* K: a thread ends while holding a value under a key whose destructor yields (the final switch away happens after a
       suspension inside thread termination, possibly on another worker) */
    add(tier, 2, "K", "Y", 0, 2, tier ? 3 : 2); add(tier, 2, "K", "K", 0, 2, 2); add(tier, 3, "K", "C", "Y", 2, tier ? 2 : 1); add(tier, 2, "KY", "YK", 0, 2, 1); add(tier, 2, "K", "M", 0, 1, 1);
    add(tier, 3, "Y", "C", "P", 2, tier ? 2 : 1); add(tier, 3, "B", "B", "B", 2, tier ? 2 : 1); add(tier, 3, "M", "M", "Y", 2, tier ? 2 : 1);
    add(tier, 3, "J", "P", "M", 2, tier ? 2 : 1);
    if (tier) { add(tier, 3, "Y", "C", "P", 3, 2); add(tier, 3, "B", "B", "B", 3, 2); add(tier, 3, "M", "M", "Y", 3, 2); }
  }
}
static int nprogs(int tier) { build(); return NP[tier]; }
static void config(int tier, int prog, int * W, int * K) { build(); *W = P[tier][prog].W; *K = P[tier][prog].K; }
static void describe(int tier, int prog, char * b, size_t n) {
  build(); prog_t * p = &P[tier][prog]; int o = snprintf(b, n, "%sprobe threads:", p->oddstack == 1 ? "[default stack size 131080] " : p->oddstack == 2 ? "[default stack size 16384, raised to 262144 by op R] " : "");
  for (int i = 0; i < p->nth; i++) o += snprintf(b + o, n - o, " t%d=%s", i, p->seq[i]);
}

static prog_t * cur;
static myth_mutex_t mtx, cm; static myth_cond_t cv; static myth_barrier_t bar; static myth_uncond_t unc;
static volatile int cflag, uflag, nbar;
static volatile long ucell;

static void * child_body(void * a) {
  MV_CHECK(((unsigned long)__builtin_frame_address(0) & 15) == 0, "thread entered with a misaligned stack");
  unsigned long pat = 0xC0DE000000000000UL + (unsigned long)a;
  volatile unsigned long loc[16]; for (int i = 0; i < 16; i++) loc[i] = pat + i;
  myth_yield();
  for (int i = 0; i < 16; i++) MV_CHECK(loc[i] == pat + i, "child: stack word %d changed across a yield", i);
  return a;
}
static void * slow_body(void * a) { myth_yield(); myth_yield(); return a; }

static void sw_yield(void * a) { (void)a; myth_yield(); }
static void sw_create_cf(void * a) { myth_thread_t t = myth_create(child_body, a); void * r; myth_join(t, &r); MV_CHECK(r == a, "child result wrong"); }
static void sw_create_pf(void * a) { myth_thread_t t; h_spawn(V_EX_PARENT_FIRST, &t, child_body, a); void * r; myth_join(t, &r); MV_CHECK(r == a, "parent-first child result wrong"); }
static void sw_create_odd(void * a) { myth_thread_t t; h_spawn(V_EX_STACK_ODD, &t, child_body, a); void * r; myth_join(t, &r); MV_CHECK(r == a, "child (20000-byte stack) result wrong"); }
static void * hint_child_body(void * a) {
  volatile unsigned long loc[32]; unsigned long pat = (unsigned long)a ^ 0x77;
  h_check_hint();
  for (int i = 0; i < 32; i++) loc[i] = pat + i;
  myth_yield();
  for (int i = 0; i < 32; i++) MV_CHECK(loc[i] == pat + i, "hinted child: stack word %d changed across a yield", i);
  h_check_hint();                 /* frames and switches of the thread must not overlay its custom data */
  return a;
}
static void sw_create_hint_pf(void * a) { myth_thread_t t; h_spawn(V_EX_HINT_PF, &t, hint_child_body, a); void * r; myth_join(t, &r); MV_CHECK(r == a, "parent-first child with custom data: result wrong"); }
static void sw_create_hint(void * a) { myth_thread_t t; h_spawn(V_EX_HINT, &t, hint_child_body, a); void * r; myth_join(t, &r); MV_CHECK(r == a, "child with custom data: result wrong"); }
/* the default stack size is raised while the program runs; a thread created through a freshly initialised attribute object afterwards
   is entitled to the new size and uses it */
static void * deep_child_body(void * a) {
  volatile unsigned char big[40000];
  for (int i = 0; i < 40000; i += 512) big[i] = (unsigned char)(i >> 9);
  myth_yield();
  for (int i = 0; i < 40000; i += 512) MV_CHECK(big[i] == (unsigned char)(i >> 9), "deep child: stack byte %d changed across a yield", i);
  return a;
}
static void sw_raise_default(void * a) {
  size_t now = 0; myth_globalattr_get_stacksize(NULL, &now);
  if (now < 262144) myth_globalattr_set_stacksize(NULL, 262144);
  myth_thread_attr_t at; memset(&at, 0xA5, sizeof at); myth_thread_attr_init(&at);
  size_t rep = 0; myth_thread_attr_getstacksize(&at, &rep); MV_CHECK(rep >= 262144, "attribute object initialised after the default was raised reports %zu bytes of stack", rep);
  myth_thread_t t; int rc = myth_create_ex(&t, &at, deep_child_body, a); MV_CHECK(rc == 0, "create_ex returned %d", rc);
  void * r; myth_join(t, &r); MV_CHECK(r == a, "deep child result wrong");
}
/* a child that is detached while it still runs, then another child is created and joined: the first one's stack must not be handed out or
   released while it is in use */
static volatile int det_done;
static void * det_child_body(void * a) { void * r = child_body(a); __sync_fetch_and_add(&det_done, 1); return r; }
static void sw_detach_then_create(void * a) {
  int before = det_done;
  myth_thread_t t = myth_create(det_child_body, a); myth_detach(t);
  myth_thread_t t2 = myth_create(child_body, a); void * r; myth_join(t2, &r); MV_CHECK(r == a, "child created after a detach: result wrong");
  while (det_done == before) mv_wait_until_changed(&det_done, sizeof(int));
}
static void sw_mutex(void * a) { (void)a; myth_mutex_lock(&mtx); myth_yield(); myth_mutex_unlock(&mtx); }
static void sw_barrier(void * a) { (void)a; myth_barrier_wait(&bar); }
static void sw_condwait(void * a) { (void)a; myth_mutex_lock(&cm); while (!cflag) myth_cond_wait(&cv, &cm); myth_mutex_unlock(&cm); }
static void sw_condsig(void * a) { (void)a; myth_yield(); myth_mutex_lock(&cm); cflag = 1; myth_cond_signal(&cv); myth_mutex_unlock(&cm); }
static void sw_uwait(void * a) {
  (void)a; mv_point(&ucell, sizeof ucell);
  if (__sync_bool_compare_and_swap(&ucell, 0, 2)) myth_uncond_wait(&unc);   /* 2 = sleeping; 1 = posted */
}
static void sw_usig(void * a) {
  (void)a; myth_yield(); mv_point(&ucell, sizeof ucell);
  long o = __sync_val_compare_and_swap(&ucell, 0, 1);
  if (o == 2) myth_uncond_signal(&unc);
}
static myth_key_t ykey; static volatile int ydtor_runs;
static void ydtor(void * v) { (void)v; int w0 = mv_worker(); myth_yield(); myth_yield(); ydtor_runs++; if (mv_worker() != w0) mv_cover(16); }
static void * keyed_body(void * a) { myth_setspecific(ykey, (void *)((long)a | 1)); return a; }
static void sw_keyed_child(void * a) { myth_thread_t t = myth_create(keyed_body, a); void * r; myth_join(t, &r); MV_CHECK(r == a, "keyed child result wrong"); }
static void sw_join_unfinished(void * a) { myth_thread_t t = myth_create(slow_body, a); void * r; myth_join(t, &r); MV_CHECK(r == a, "slow child result wrong"); }

static void do_op(int me, char op, int idx) {
  unsigned long pat = 0xAB00000000000000UL | ((unsigned long)me << 32) | ((unsigned long)idx << 16) | 0x5A5A;
  volatile unsigned long big[256];
  for (int i = 0; i < 256; i++) big[i] = pat ^ (0x0101010101010101UL * (unsigned long)i);
  void (*fn)(void *); int kind;
  switch (op) {
  case 'Y': fn = sw_yield; kind = 0; break;          case 'C': fn = sw_create_cf; kind = 1; break;
  case 'P': fn = sw_create_pf; kind = 2; break;      case 'M': fn = sw_mutex; kind = 3; break;
  case 'B': fn = sw_barrier; kind = 4; break;        case 'W': fn = sw_condwait; kind = 5; break;
  case 'w': fn = sw_condsig; kind = 5; break;        case 'U': fn = sw_uwait; kind = 6; break;
  case 'u': fn = sw_usig; kind = 6; break;           case 'K': fn = sw_keyed_child; kind = 1; break;
  case 'O': fn = sw_create_odd; kind = 1; break;           case 'H': fn = sw_create_hint_pf; kind = 2; break;
  case 'h': fn = sw_create_hint; kind = 1; break;              case 'X': fn = sw_detach_then_create; kind = 1; break;              case 'R': fn = sw_raise_default; kind = 1; break;
  default: fn = sw_join_unfinished; kind = 7; break;
  }
  int w0 = mv_worker();
  long bad = probe_call(fn, (void *)(pat & 0xffffffff), pat);
  int w1 = mv_worker();
  MV_CHECK(bad == 0, "t%d op %c: callee-saved registers changed across the switching call (mask 0x%lx: 1=rbx 2=rbp 4=r12 8=r13 16=r14 32=r15)%s",
	   me, op, bad, w0 != w1 ? " [resumed on another worker]" : "");
  for (int i = 0; i < 256; i++) MV_CHECK(big[i] == (pat ^ (0x0101010101010101UL * (unsigned long)i)), "t%d op %c: stack word %d changed across the switching call", me, op, i);
  mv_cover(w0 == w1 ? kind : 8 + kind);
}

static void * probe_thread(void * a) {
  int me = (int)(long)a;
  MV_CHECK(((unsigned long)__builtin_frame_address(0) & 15) == 0, "thread entered with a misaligned stack");
  int idx = 0;
  for (const char * s = cur->seq[me]; *s; s++) do_op(me, *s, idx++);
  return 0;
}

static void run(int tier, int prog) {
  build(); cur = &P[tier][prog];
  if (cur->oddstack == 1) mv_set_default_stacksize(131080);
  if (cur->oddstack == 2) mv_set_default_stacksize(16384);
  mv_start(cur->W);
  myth_key_create(&ykey, ydtor);
  myth_mutex_init(&mtx, 0); myth_mutex_init(&cm, 0); myth_cond_init(&cv, 0); myth_uncond_init(&unc);
  int nb = 0; for (int i = 0; i < cur->nth; i++) if (strchr(cur->seq[i], 'B')) nb++;
  myth_barrier_init(&bar, 0, nb ? nb : 1);
  myth_thread_t th[3];
  for (int i = 0; i < cur->nth; i++) {
    if (i == 1) h_spawn(V_EX_PARENT_FIRST, &th[i], probe_thread, (void *)(long)i);   /* one probe thread is entered through the parent-first path */
    else th[i] = myth_create(probe_thread, (void *)(long)i);
  }
  do_op(3, 'Y', 9);
  for (int i = 0; i < cur->nth; i++) myth_join(th[i], 0);
  mv_obs("done on w%d", mv_worker());
  mv_finish();
}
static const char * const cover_names[] = { "yield_same", "create_cf_same", "create_pf_same", "mutex_same", "barrier_same", "cond_same", "uncond_same", "join_same",
  "yield_other", "create_cf_other", "create_pf_other", "mutex_other", "barrier_other", "cond_other", "uncond_other", "join_other", "thread_migrated_inside_its_key_destructor", 0 };
static uint64_t cover_required(int tier) { (void)tier; return 0x1ffff & ~(1 << 6); }
mc_harness_t mc_harness = { "C03", "context", nprogs, describe, config, run, cover_names, cover_required };
