/* C15 (E1 part) --- finalisation while the main thread runs on another worker than the one it started on:
 * the schedule decides whether main's continuation is stolen; myth_fini must migrate it home, stop every
 * worker, and a fresh initialisation with a different worker count must work afterwards. */
#include "hcommon.h"
#include <dirent.h>
#include <unistd.h>
typedef struct { int W, K, y; } prog_t;
static prog_t P[2][8]; static int NP[2];
static void build(void) {
  static int built; if (built) return; built = 1;
  for (int tier = 0; tier < 2; tier++) {
    prog_t a = { 2, tier ? 3 : 2, 0 }, b = { 2, 2, 1 }, c = { 3, tier ? 2 : 1, 1 }, d = { 1, 2, 1 };
    P[tier][NP[tier]++] = a; P[tier][NP[tier]++] = b; P[tier][NP[tier]++] = c; P[tier][NP[tier]++] = d;
  }
}
static int nprogs(int tier) { build(); return NP[tier]; }
static void config(int tier, int prog, int * W, int * K) { build(); *W = P[tier][prog].W; *K = P[tier][prog].K; }
static void describe(int tier, int prog, char * b, size_t n) { build(); snprintf(b, n, "create (child yields %d times); join; myth_fini under control; re-init with another worker count", P[tier][prog].y); }
static prog_t * cur;
static void * child(void * a) { for (int i = 0; i < cur->y; i++) myth_yield(); return a; }
static int os_threads(void) {
  int n = 0;
  for (int i = 0; i < 300; i++) { n = 0; DIR * d = opendir("/proc/self/task"); struct dirent * e; while ((e = readdir(d))) if (e->d_name[0] != '.') n++; closedir(d); if (n == 1) break; usleep(1000); }
  return n;
}
static void run(int tier, int prog) {
  build(); cur = &P[tier][prog];
  mv_start(cur->W);
  MV_CHECK(myth_get_num_workers() == cur->W, "runs with %d workers, requested %d", myth_get_num_workers(), cur->W);
  myth_thread_t t = myth_create(child, (void *)3); void * r = 0; myth_join(t, &r);
  MV_CHECK(r == (void *)3, "join value");
  int w = myth_get_worker_num();
  MV_CHECK(w >= 0 && w < cur->W && w == mv_worker(), "worker index %d out of range or inconsistent", w);
  if (w != 0) mv_cover(0); else mv_cover(1);
  mv_obs("fini called on worker %d", w);
  myth_fini();                                  /* still under schedule control until every worker has left */
  mv_finish();
  int n = os_threads();
  MV_CHECK(n == 1, "%d OS threads remain after myth_fini", n);
  /* fresh initialisation with different settings */
  int nw2 = cur->W == 1 ? 2 : 1;
  myth_globalattr_t ga[1]; myth_globalattr_init(ga); myth_globalattr_set_n_workers(ga, nw2); myth_globalattr_set_bind_workers(ga, 0);
  myth_init_ex(ga);
  MV_CHECK(myth_get_num_workers() == nw2, "after re-initialisation: %d workers, requested %d", myth_get_num_workers(), nw2);
  t = myth_create(child, (void *)4); myth_join(t, &r); MV_CHECK(r == (void *)4, "join value after re-init");
  myth_fini();
  MV_CHECK(os_threads() == 1, "OS threads remain after the second myth_fini");
}
static const char * const cover_names[] = { "fini_called_away_from_worker_0", "fini_called_on_worker_0", 0 };
static uint64_t cover_required(int tier) { (void)tier; return 3; }
mc_harness_t mc_harness = { "C15", "fini", nprogs, describe, config, run, cover_names, cover_required };
