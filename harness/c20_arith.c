/* C20 (E3 part) --- timespec arithmetic and argument validation of the sleep functions, against 128-bit arithmetic.
 * Includes the library's own inline functions; links against the plain library objects. */
#include "myth/myth.h"
#include "myth_config.h"
#include "myth_sched_func.h"
#include "seqmc.h"
#include <sys/wait.h>

static const long NS[] = { 0, 1, 499999999L, 500000000L, 999999998L, 999999999L };
static const long SEC[] = { 0, 1, 59, 2147483647L, 1099511627776L };

static int run_case(int which, long a, long b) {
  /* sleep-argument cases run the real API in a forked child (the library is initialised there) */
  pid_t pid = fork();
  if (pid == 0) {
    setenv("MYTH_NUM_WORKERS", "2", 1);
    struct timespec rq = { a, b };
    int r;
    switch (which) { case 0: r = myth_nanosleep(&rq, 0); break; case 3: r = myth_nanosleep(&rq, &rq); break; /* the restart idiom: remainder over the request */
    case 4: { struct timespec rm = { 77, 77 }; r = myth_nanosleep(&rq, &rm); if (r == 0 && (rm.tv_sec < 0 || rm.tv_nsec < 0 || rm.tv_nsec > 999999999L)) r = -1; break; } case 1: r = myth_usleep((useconds_t)a); break; default: r = (int)myth_sleep((unsigned)a); break; }
    _exit(r == 0 ? 0 : r == EINVAL ? 1 : 2);
  }
  int st = 0; if (sq_wait_child(pid, 90, &st)) return -1;
  if (!WIFEXITED(st)) return -1;
  return WEXITSTATUS(st);
}

int main(int argc, char ** argv) {
  const char * stats = "build/c20a/stats.json"; int tier = 0;
  for (int i = 1; i < argc; i++) { if (!strcmp(argv[i], "--stats")) stats = argv[++i]; else if (!strcmp(argv[i], "--tier")) tier = !strcmp(argv[++i], "thorough"); }
  sq_begin("C20", "c20a", "E3 seqmc (bounded exhaustive inputs vs 128-bit reference arithmetic)", "replays", argv[0]);
  int nns = sizeof NS / sizeof NS[0], nsec = sizeof SEC / sizeof SEC[0];
  for (int i = 0; i < nsec; i++) for (int j = 0; j < nns; j++) for (int k = 0; k < nsec; k++) for (int l = 0; l < nns; l++) {
    struct timespec a = { SEC[i], NS[j] }, b = { SEC[k], NS[l] }, c = { -1, -1 };
    myth_timespec_add(&a, &b, &c);
    __int128 tot = ((__int128)a.tv_sec + b.tv_sec) * 1000000000 + a.tv_nsec + b.tv_nsec;
    long es = (long)(tot / 1000000000), en = (long)(tot % 1000000000);
    SQ.evaluations++; SQ.states++; SQ.transitions++;
    if (c.tv_sec != es || c.tv_nsec != en || c.tv_nsec < 0 || c.tv_nsec > 999999999L) {
      char key[100]; snprintf(key, sizeof key, "timespec_add(%ld.%09ld,%ld.%09ld)", (long)a.tv_sec, a.tv_nsec, (long)b.tv_sec, b.tv_nsec);
      sq_found(key, "", "timespec_add gives %ld.%09ld, reference %ld.%09ld", (long)c.tv_sec, c.tv_nsec, es, en);
    }
    int g = myth_timespec_gt(&a, &b);
    __int128 ta = (__int128)a.tv_sec * 1000000000 + a.tv_nsec, tb = (__int128)b.tv_sec * 1000000000 + b.tv_nsec;
    SQ.evaluations++; SQ.states++; SQ.transitions++;
    if (g != (ta > tb)) {
      char key[100]; snprintf(key, sizeof key, "timespec_gt(%ld.%09ld,%ld.%09ld)", (long)a.tv_sec, a.tv_nsec, (long)b.tv_sec, b.tv_nsec);
      sq_found(key, "", "timespec_gt gives %d, reference %d", g, (int)(ta > tb));
    }
    if (SQ.evaluations < 5) sq_sample("add/gt (%ld.%09ld, %ld.%09ld)", (long)a.tv_sec, a.tv_nsec, (long)b.tv_sec, b.tv_nsec);
  }
  /* argument validation: EINVAL exactly for negative fields or tv_nsec > 999999999; zero return otherwise */
  static const long VS[] = { -1, 0 }, VN[] = { -1, 0, 1, 999999999L, 1000000000L, 2000000000L };
  for (int i = 0; i < 2; i++) for (int j = 0; j < 6; j++) {
    int want = (VS[i] < 0 || VN[j] < 0 || VN[j] > 999999999L) ? 1 : 0;
    int got = run_case(0, VS[i], VN[j]);
    SQ.evaluations++; SQ.states++; SQ.transitions++;
    sq_sample("nanosleep({%ld,%ld}) -> %s", VS[i], VN[j], got == 0 ? "0" : got == 1 ? "EINVAL" : "other");
    if (got != want) { char key[100]; snprintf(key, sizeof key, "nanosleep({%ld,%ld})", VS[i], VN[j]); sq_found(key, "", "returned class %d, expected %s", got, want ? "EINVAL" : "0"); }
    /* the same request with a remainder argument: the request itself (nanosleep(&ts, &ts)) or a separate object */
    for (int w = 3; w <= 4; w++) {
      got = run_case(w, VS[i], VN[j]); SQ.evaluations++; SQ.states++; SQ.transitions++;
      if (got != want) { char key[100]; snprintf(key, sizeof key, "nanosleep({%ld,%ld}, rem=%s)", VS[i], VN[j], w == 3 ? "req" : "other"); sq_found(key, "", "returned class %d, expected %s", got, want ? "EINVAL" : "0"); }
    }
  }
  static const long US[] = { 0, 1, 999, 1000, 2500 };
  for (int i = 0; i < 5; i++) { int got = run_case(1, US[i], 0); SQ.evaluations++; SQ.states++; SQ.transitions++; if (got != 0) { char key[60]; snprintf(key, sizeof key, "usleep(%ld)", US[i]); sq_found(key, "", "returned class %d", got); } }
  { int got = run_case(2, 0, 0); SQ.evaluations++; SQ.states++; SQ.transitions++; if (got != 0) sq_found("sleep(0)", "", "returned class %d", got); }
  if (tier) { int got = run_case(2, 1, 0); SQ.evaluations++; SQ.states++; SQ.transitions++; if (got != 0) sq_found("sleep(1)", "", "returned class %d", got); }
  SQ.distinct = SQ.evaluations;
  sq_detail("timespec_add and timespec_gt on all %d x %d pairs of (sec,nsec) boundary values; nanosleep on 12 (sec,nsec) validity classes x {rem NULL, rem == req, rem separate}; usleep/sleep small values", nsec * nns, nsec * nns);
  return sq_end(stats);
}
