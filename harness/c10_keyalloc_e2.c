/* C10 (E2 part) --- the lock-free key table (myth_tls_key_allocator_alloc / _dealloc of src/myth_tls_func.h)
 * explored at memory-access granularity: concurrent create/delete must never hand out a live key twice.
 * Compiled with -fsanitize=thread (instrumentation only). */
#include "myth/myth.h"
#include "myth_config.h"
#include "myth_tls.h"
/* the public-facing bodies (myth_key_create_body / myth_key_delete_body) work on the global key table: let every participant's copy of
   the shared region stand for it (unitmc's bind callback sets the pointer before a participant runs) */
static myth_tls_key_allocator_t * u2_ka;
#define g_myth_tls_key_allocator u2_ka
#include "myth_tls_func.h"
#include "unitmc.h"
#include "seqmc.h"
#include <sys/wait.h>
#include <sys/mman.h>
#include <sys/personality.h>

static const char * PROG[U2_MAXP]; static int NPART;
static void init(void * region) { myth_tls_key_allocator_init((myth_tls_key_allocator_t *)region); }
#define DTOR(p, i) ((myth_tls_destructor_fun_t)(uintptr_t)(0x10000 + (p) * 256 + (i)))   /* never called: compared only */
static void bind_ka(void * region, int me) { (void)me; u2_ka = region; }
static void body(void * region, int me) {
  (void)region;
  int mine[8], n = 0, created = 0;
  for (const char * s = PROG[me]; *s; s++) {
    if (*s == 'c') {
      myth_key_t k = -1; int r = myth_key_create_body(&k, DTOR(me, created)); created++;
      if (r != 0) k = -1;
      u2_note(me, 1000 + k); if (k >= 0) mine[n++] = k; }
    else if (n > 0) { int k = mine[0]; memmove(mine, mine + 1, sizeof(int) * (n - 1)); n--;
      if (myth_key_delete_body(k) != 0) u2_fail("delete of a key this participant owns was rejected (key %d)", k);
      u2_note(me, 3000 + k); }
  }
}
static char omsg[300];
static const char * oracle(void * region) {
  myth_tls_key_allocator_t * ka = region;
  int live[1024] = {0};
  for (int p = 0; p < NPART; p++) for (int i = 0; i < u2_nnoted(p); i++) {
    long v = u2_noted(p, i);
    if (v >= 1000 && v < 3000) { int k = (int)v - 1000; if (k < 0 || k >= 1024) { snprintf(omsg, sizeof omsg, "create returned %d although the table is far from exhausted", k); return omsg; } live[k]++; }
    else if (v >= 3000) live[v - 3000]--;
  }
  for (int k = 0; k < 1024; k++) if (live[k] > 1) { snprintf(omsg, sizeof omsg, "key %d is live %d times at quiescence: handed out twice while live", k, live[k]); return omsg; }
  /* a live key keeps the destructor its creator registered */
  for (int p = 0; p < NPART; p++) { int created = 0;
    for (int i = 0; i < u2_nnoted(p); i++) { long v = u2_noted(p, i); if (v < 1000 || v >= 3000) continue;
      int k = (int)v - 1000, ord = created++, deleted = 0;
      if (k < 0) continue;
      for (int j = i + 1; j < u2_nnoted(p); j++) if (u2_noted(p, j) == 3000 + k) deleted = 1;
      if (!deleted && live[k] == 1 && ka->keys[k].destructor != DTOR(p, ord)) {
	snprintf(omsg, sizeof omsg, "live key %d was created with destructor %p but the table holds %p at quiescence (a concurrent delete of the key's previous incarnation overwrote it)", k, (void *)DTOR(p, ord), (void *)ka->keys[k].destructor); return omsg; } } }
  /* the free list must not contain a live cell and must be well formed */
  int steps = 0;
  for (myth_tls_key_entry_t * e = ka->free; e; e = e->next) {
    if (e == (myth_tls_key_entry_t *)-1) { snprintf(omsg, sizeof omsg, "free list runs into the 'live' marker: a live cell is on the free list"); return omsg; }
    long k = e - ka->keys;
    if (k < 0 || k >= 1024) { snprintf(omsg, sizeof omsg, "free list leaves the table"); return omsg; }
    if (live[k] > 0) { snprintf(omsg, sizeof omsg, "live key %ld is on the free list", k); return omsg; }
    if (++steps > 1024) { snprintf(omsg, sizeof omsg, "free list is cyclic"); return omsg; }
  }
  return NULL;
}

typedef struct { const char * a, * b, * c; int mm; } conf_t;
typedef struct { long states, transitions, terminals, configs; int nfound; char found[8][900]; char fkey[8][120]; long capped; } shared_t;

int main(int argc, char ** argv) {
  if (!getenv("U2_NOASLR")) { setenv("U2_NOASLR", "1", 1); if (personality(ADDR_NO_RANDOMIZE) != -1) execv("/proc/self/exe", argv); }
  const char * stats = "build/c10e2/stats.json", * propid = "C10", * compid = "c10e2"; int tier = 0, jobs = 16, only = -1;
  for (int i = 1; i < argc; i++) {
    if (!strcmp(argv[i], "--stats")) stats = argv[++i]; else if (!strcmp(argv[i], "--tier")) tier = !strcmp(argv[++i], "thorough");
    else if (!strcmp(argv[i], "--jobs")) jobs = atoi(argv[++i]); else if (!strcmp(argv[i], "--conf")) only = atoi(argv[++i]);
    else if (!strcmp(argv[i], "--prop")) propid = argv[++i]; else if (!strcmp(argv[i], "--comp")) compid = argv[++i];
  }
  static const char * A[] = { "c", "cc", "cd", 0 };
  static const char * B2[] = { "c", "d", "cc", "cd", "ccd", "cdc", "ccc", "cdd", "ccdc", 0 };
  static const char * Cs[] = { 0, "c", "cd", 0 };
  static conf_t confs[400]; int nconf = 0;
  for (int mm = 0; mm < 2; mm++) for (int a = 0; A[a]; a++) for (int b = 0; B2[b]; b++) for (int c = 0; c < 3; c++) {
    if (!tier && Cs[c] && strlen(B2[b]) > 3) continue;
    if (!tier && c == 2 && strlen(B2[b]) > 2) continue;
    if (strlen(B2[b]) > 3 && !tier && a > 0) continue;
    conf_t cf = { A[a], B2[b], Cs[c], mm }; confs[nconf++] = cf;
  }
  sq_begin(propid, compid, "E2 unitmc (explicit-state; every access of the real key-table code a transition; SC and x86-TSO)", "replays", argv[0]);
  shared_t * SH = mmap(NULL, sizeof(shared_t) * jobs, PROT_READ | PROT_WRITE, MAP_SHARED | MAP_ANONYMOUS, -1, 0);
  for (int j = 0; j < jobs; j++) if (fork() == 0) {
    shared_t * me = &SH[j];
    for (int c = j; c < nconf; c += jobs) {
      if (only >= 0 && c != only) continue;
      conf_t * cf = &confs[c];
      PROG[0] = cf->a; PROG[1] = cf->b; PROG[2] = cf->c; NPART = cf->c ? 3 : 2;
      u2_config_t uc = { "keyalloc", sizeof(myth_tls_key_allocator_t), init, NPART, { body, body, body }, oracle, bind_ka };
      g_myth_init_state = myth_init_state_initialized;   /* the bodies call myth_ensure_init(): no runtime is needed for the key table */
      static u2_result_t res; u2_explore(&uc, cf->mm, 6000000, &res);
      me->states += res.states; me->transitions += res.transitions; me->terminals += res.terminals; me->configs++;
      if (res.violation == 4) me->capped++;
      else if (res.violation && me->nfound < 8) {
	snprintf(me->fkey[me->nfound], 120, "conf %d: %s A='%s' B='%s' C='%s'", c, cf->mm ? "TSO" : "SC", cf->a, cf->b, cf->c ? cf->c : "-");
	snprintf(me->found[me->nfound], 900, "%s || trace tail: %s", res.msg, strlen(res.trace) > 500 ? res.trace + strlen(res.trace) - 500 : res.trace);
	me->nfound++;
	if (only >= 0) fprintf(stderr, "%s\n%s\n", res.msg, res.trace);
      }
    }
    _exit(0);
  }
  int st; while (wait(&st) > 0) {}
  long capped = 0;
  for (int j = 0; j < jobs; j++) {
    SQ.states += SH[j].states; SQ.transitions += SH[j].transitions; SQ.evaluations += SH[j].configs; SQ.distinct += SH[j].terminals; capped += SH[j].capped;
    for (int k = 0; k < SH[j].nfound; k++) { char arg[120]; snprintf(arg, sizeof arg, "--prop %s --comp %s --tier %s --conf %d", propid, compid, tier ? "thorough" : "quick", atoi(SH[j].fkey[k] + 5)); sq_found(SH[j].fkey[k], arg, "%s", SH[j].found[k]); }
  }
  if (capped) SQ.exhaustive = 0;
  if (SQ.states == 0) { SQ.engine_error = 1; fprintf(stderr, "ENGINE-ERROR no state explored (configuration too large for unitmc.c REGION_MAX?)\n"); }   /* never report a vacuous run as a pass */
  sq_detail("%d configurations (A x B x optional C programs over create / delete-own x memory model) each explored exhaustively; %ld capped", nconf, capped);
  sq_sample("SC A='c' B='ccd' C='c'"); sq_sample("TSO A='cc' B='cdc' C=-");
  return sq_end(stats);
}
