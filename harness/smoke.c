/* smoke harness for the E1 engine: create; join */
#include <stdio.h>
#include "myth/myth.h"
#include "mythmc.h"

static int ran;
static void * body(void * a) { ran++; return (void *)((long)a + 1); }

static int nprogs(int tier) { (void)tier; return 2; }
static void describe(int tier, int prog, char * b, size_t n) { (void)tier; snprintf(b, n, "create;join on %d workers", prog + 1); }
static void config(int tier, int prog, int * W, int * K) { *W = prog + 1; *K = tier ? 3 : 2; }
static void run(int tier, int prog) {
  (void)tier;
  mv_start(prog + 1);
  myth_thread_t t = myth_create(body, (void *)41);
  void * r = 0;
  myth_join(t, &r);
  MV_CHECK(ran == 1, "body ran %d times", ran);
  MV_CHECK((long)r == 42, "join returned %ld", (long)r);
  mv_obs("w=%d", mv_worker());
  mv_finish();
}
mc_harness_t mc_harness = { "C00", "smoke", nprogs, describe, config, run, 0, 0 };
