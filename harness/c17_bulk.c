/* C17 (C part) --- myth_create_join_many_ex / myth_create_join_various_ex equal the sequential loop. */
#include "hcommon.h"
/* layout: 0 packed arrays (stride = element size), 1 stride = 2 x element, 2 everything embedded in one struct per item */
typedef struct { int n, various, res, ids, attrs, layout, W, K; } prog_t;
#define MAXP 2000
static prog_t P[2][MAXP]; static int NP[2];
static void build(void) {
  static int built; if (built) return; built = 1;
  for (int tier = 0; tier < 2; tier++) {
    int nmax = tier ? 7 : 4;
    for (int n = 0; n <= nmax; n++) for (int various = 0; various < 2; various++) for (int layout = 0; layout < 3; layout++)
      for (int mask = 0; mask < 8; mask++) for (int W = 1; W <= 2; W++) {
	/* quick: all NULL-ness combinations for packed layout, representative ones for the others */
	if (!tier && layout && mask != 7 && mask != 0 && mask != 1) continue;
	if (!tier && W == 1 && n > 2 && mask != 7) continue;
	if (tier && n > 5 && layout && mask != 7) continue;
	if (NP[tier] >= MAXP) continue;
	prog_t * p = &P[tier][NP[tier]++];
	p->n = n; p->various = various; p->res = mask & 1; p->ids = (mask >> 1) & 1; p->attrs = (mask >> 2) & 1; p->layout = layout; p->W = W;
	p->K = tier ? (n <= 3 ? 3 : 2) : (n <= 3 ? 2 : 1);
      }
  }
}
/* overlapping bulk calls: various = 2 nested (an item of the outer call makes a bulk call of its own with another function),
   various = 3 two threads make bulk calls with different functions at the same time */
static void build2(void) {
  static int built2; if (built2) return; built2 = 1; build();
  for (int tier = 0; tier < 2; tier++) for (int W = 1; W <= 2; W++) for (int v = 2; v <= 3; v++) for (int n = 2; n <= (tier ? 4 : 3); n++) {
    if (NP[tier] >= MAXP) continue;
    prog_t * p = &P[tier][NP[tier]++]; memset(p, 0, sizeof *p);
    p->n = n; p->various = v; p->res = 1; p->W = W; p->K = tier ? 2 : (n == 2 ? 2 : 1);
  }
}
/* the index idiom: args == NULL with a non-zero stride, so that item i receives (void *)(i * arg_stride); various = 4 (many) / 5 (various) */
static void build3(void) {
  static int built3; if (built3) return; built3 = 1; build2();
  for (int tier = 0; tier < 2; tier++) for (int W = 1; W <= 2; W++) for (int v = 4; v <= 5; v++) for (int n = 1; n <= (tier ? 5 : 3); n++) for (int stride = 1; stride <= 8; stride += 7) {
    if (NP[tier] >= MAXP) continue;
    prog_t * p = &P[tier][NP[tier]++]; memset(p, 0, sizeof *p);
    p->n = n; p->various = v; p->res = 1; p->layout = stride; p->W = W; p->K = tier ? 2 : 1;
  }
}
static int nprogs(int tier) { build3(); return NP[tier]; }
static void config(int tier, int prog, int * W, int * K) { build3(); *W = P[tier][prog].W; *K = P[tier][prog].K; }
static void describe(int tier, int prog, char * b, size_t n) {
  build3(); prog_t * p = &P[tier][prog];
  if (p->various >= 4) { snprintf(b, n, "create_join_%s n=%d with args == NULL and arg_stride=%d (item i receives (void *)(i*stride))", p->various == 5 ? "various" : "many", p->n, p->layout); return; }
  if (p->various >= 2) { snprintf(b, n, "%s bulk calls with different functions, %d items each", p->various == 2 ? "nested" : "two concurrent", p->n); return; }
  snprintf(b, n, "create_join_%s n=%d results=%s ids=%s attrs=%s layout=%s", p->various ? "various" : "many", p->n, p->res ? "given" : "NULL", p->ids ? "given" : "NULL", p->attrs ? "per-item" : "NULL",
	   p->layout == 0 ? "packed" : p->layout == 1 ? "stride=2x" : "struct-embedded");
}
#define GUARD 0x5AA5C33C5AA5C33CUL
typedef struct { unsigned long g0; long arg; unsigned long g1; void * result; unsigned long g2; myth_thread_t id; unsigned long g3; myth_func_t fn; unsigned long g4; myth_thread_attr_t attr; unsigned long g5; } item_t;
static prog_t * cur; static volatile int calls[8]; static char * args_base; static size_t args_stride;
static void * f_common(void * a, int which) {
  long idx = ((char *)a - args_base) / (long)args_stride;
  MV_CHECK(idx >= 0 && idx < cur->n && (char *)a == args_base + idx * (long)args_stride, "function called with an argument pointer %p that is not args + i*arg_stride", a);
  if (cur->various) MV_CHECK(which == idx % 3, "item %ld executed function f%d instead of f%ld", idx, which, idx % 3);
  calls[idx]++;
  MV_CHECK(*(long *)a == 7000 + idx, "item %ld: argument slot holds %ld", idx, *(long *)a);
  return (void *)(9000 + idx * 10 + which);
}
static void * f0(void * a) { return f_common(a, 0); }
static void * f1(void * a) { return f_common(a, 1); }
static void * f2(void * a) { return f_common(a, 2); }
static myth_func_t FN[3] = { f0, f1, f2 };

/* overlapping calls */
static long ov_arg[2][8]; static void * ov_res[2][8]; static volatile int ov_calls[2][8];
static void * ov_inner(void * a) { long v = *(long *)a; MV_CHECK(v >= 200 && v < 208, "the inner call's function was applied to %ld, an item of the other bulk call", v); ov_calls[1][v - 200]++; return (void *)(v + 1000); }
static void * ov_outer(void * a) {
  long v = *(long *)a; MV_CHECK(v >= 100 && v < 108, "the outer call's function was applied to %ld, an item of the other bulk call", v);
  ov_calls[0][v - 100]++;
  if (cur->various == 2 && v == 101) { int r = myth_create_join_many_ex(0, 0, ov_inner, ov_arg[1], ov_res[1], 0, 0, sizeof(long), sizeof(void *), cur->n); MV_CHECK(r == 0, "inner bulk call returned %d", r); }
  return (void *)(v + 1000);
}
static void * ov_thread(void * a) { int r = myth_create_join_many_ex(0, 0, ov_inner, ov_arg[1], ov_res[1], 0, 0, sizeof(long), sizeof(void *), cur->n); MV_CHECK(r == 0, "bulk call returned %d", r); return a; }
static void run_overlap(void) {
  int n = cur->n;
  for (int i = 0; i < 8; i++) { ov_arg[0][i] = 100 + i; ov_arg[1][i] = 200 + i; ov_res[0][i] = ov_res[1][i] = (void *)0x1111; }
  myth_thread_t t = 0;
  if (cur->various == 3) t = myth_create(ov_thread, 0);
  int r = myth_create_join_many_ex(0, 0, ov_outer, ov_arg[0], ov_res[0], 0, 0, sizeof(long), sizeof(void *), n); MV_CHECK(r == 0, "bulk call returned %d", r);
  if (t) myth_join(t, 0);
  for (int c = 0; c < 2; c++) for (int i = 0; i < 8; i++) {
    int want = i < n ? 1 : 0;
    MV_CHECK(ov_calls[c][i] == want, "%s call: item %d was executed %d time(s) by its own function, the sequential loop executes it %d time(s)", c ? "inner / second" : "outer / first", i, ov_calls[c][i], want);
    MV_CHECK(ov_res[c][i] == (want ? (void *)(long)(1100 + 100 * c + i) : (void *)0x1111), "%s call: result slot %d holds %p", c ? "inner / second" : "outer / first", i, ov_res[c][i]);
  }
  mv_obs("overlap %d n=%d ok", cur->various, n);
  mv_finish();
}
/* args == NULL: the sequential loop calls f_i((char *)0 + i * arg_stride) */
static volatile int nb_calls[8];
static void * nb_common(void * a, int which) {
  long st = cur->layout, idx = (long)a / st;
  MV_CHECK((long)a % st == 0 && idx >= 0 && idx < cur->n, "args == NULL, arg_stride=%ld: a function was called with %p, which is not i*arg_stride for any i < %d", st, a, cur->n);
  if (cur->various == 5) MV_CHECK(which == idx % 3, "item %ld executed function f%d instead of f%ld", idx, which, idx % 3);
  nb_calls[idx]++;
  return (void *)(9000 + idx * 10 + which);
}
static void * nb0(void * a) { return nb_common(a, 0); }
static void * nb1(void * a) { return nb_common(a, 1); }
static void * nb2(void * a) { return nb_common(a, 2); }
static void run_nullbase(void) {
  int n = cur->n; static myth_func_t fns[8]; static void * res[8];
  for (int i = 0; i < 8; i++) { fns[i] = i % 3 == 0 ? nb0 : i % 3 == 1 ? nb1 : nb2; res[i] = (void *)0x1111; }
  int r;
  if (cur->various == 5) r = myth_create_join_various_ex(0, 0, fns, 0, res, 0, 0, sizeof fns[0], cur->layout, sizeof res[0], n);
  else r = myth_create_join_many_ex(0, 0, nb0, 0, res, 0, 0, cur->layout, sizeof res[0], n);
  MV_CHECK(r == 0, "bulk helper returned %d", r);
  for (int i = 0; i < 8; i++) {
    MV_CHECK(nb_calls[i] == (i < n ? 1 : 0), "args == NULL: item %d was executed %d time(s), the sequential loop executes it %d time(s) (n=%d)", i, nb_calls[i], i < n ? 1 : 0, n);
    MV_CHECK(res[i] == (i < n ? (void *)(long)(9000 + i * 10 + (cur->various == 5 ? i % 3 : 0)) : (void *)0x1111), "args == NULL: result slot %d holds %p", i, res[i]);
  }
  mv_obs("nullbase %d n=%d ok", cur->various, n);
  mv_finish();
}
static void run(int tier, int prog) {
  build3(); cur = &P[tier][prog];
  mv_start(cur->W);
  if (cur->various >= 4) { run_nullbase(); return; }
  if (cur->various >= 2) { run_overlap(); return; }
  int n = cur->n;
  /* storage: one array of item_t (struct-embedded), or separate padded arrays */
  static item_t items[9];
  static struct { unsigned long g0; long v; unsigned long g1; long pad[3]; } A2[9];     /* layouts 0/1 use separate arrays with guards between slots */
  static struct { unsigned long g0; void * v; unsigned long g1; long pad[3]; } R2[9], I2[9], F2[9];
  static myth_thread_attr_t AT[9];
  memset(items, 0, sizeof items);
  for (int i = 0; i < 9; i++) {
    item_t * it = &items[i]; it->g0 = it->g1 = it->g2 = it->g3 = it->g4 = it->g5 = GUARD; it->arg = 7000 + i; it->result = (void *)0x1111; it->id = (myth_thread_t)0x2222; it->fn = FN[i % 3];
    A2[i].g0 = A2[i].g1 = R2[i].g0 = R2[i].g1 = I2[i].g0 = I2[i].g1 = F2[i].g0 = F2[i].g1 = GUARD; A2[i].v = 7000 + i; R2[i].v = (void *)0x1111; I2[i].v = (void *)0x2222; F2[i].v = (void *)FN[i % 3];
    h_prepare_attr(&it->attr, i % 3 == 0 ? V_EX_ATTR_DEFAULT : i % 3 == 1 ? V_EX_PARENT_FIRST : V_EX_STACK_8K); AT[i] = it->attr;
  }
  void * ids, * attrs, * funcs, * args, * results; size_t ids_s, attr_s, func_s, arg_s, res_s;
  if (cur->layout == 2) {
    ids = &items[0].id; attrs = &items[0].attr; funcs = &items[0].fn; args = &items[0].arg; results = &items[0].result;
    ids_s = attr_s = func_s = arg_s = res_s = sizeof(item_t);
  } else {
    /* packed: stride = size of one guarded cell; 2x: every other cell (odd cells must stay untouched) */
    size_t m = cur->layout == 1 ? 2 : 1;
    if (m == 2) for (int i = 0; i < 4; i++) { A2[2 * i].v = 7000 + i; F2[2 * i].v = (void *)FN[i % 3]; }
    ids = &I2[0].v; funcs = &F2[0].v; args = &A2[0].v; results = &R2[0].v; attrs = &AT[0];
    ids_s = m * sizeof I2[0]; func_s = m * sizeof F2[0]; arg_s = m * sizeof A2[0]; res_s = m * sizeof R2[0]; attr_s = sizeof(myth_thread_attr_t);
    if (m == 2 && n > 4) n = 4;
  }
  cur->n = n;
  args_base = args; args_stride = arg_s;
  int r;
  if (cur->various) r = myth_create_join_various_ex(cur->ids ? ids : 0, cur->attrs ? attrs : 0, funcs, args, cur->res ? results : 0, ids_s, attr_s, func_s, arg_s, res_s, n);
  else r = myth_create_join_many_ex(cur->ids ? ids : 0, cur->attrs ? attrs : 0, f0, args, cur->res ? results : 0, ids_s, attr_s, arg_s, res_s, n);
  MV_CHECK(r == 0, "bulk helper returned %d", r);
  for (int i = 0; i < 8; i++) MV_CHECK(calls[i] == (i < n ? 1 : 0), "item %d was executed %d time(s), the sequential loop executes it %d time(s) (n=%d)", i, calls[i], i < n ? 1 : 0, n);
  for (int i = 0; i < 9; i++) {
    item_t * it = &items[i];
    MV_CHECK(it->g0 == GUARD && it->g1 == GUARD && it->g2 == GUARD && it->g3 == GUARD && it->g4 == GUARD && it->g5 == GUARD, "memory outside the slots of item %d was written (struct layout)", i);
    MV_CHECK(A2[i].g0 == GUARD && A2[i].g1 == GUARD && R2[i].g0 == GUARD && R2[i].g1 == GUARD && I2[i].g0 == GUARD && I2[i].g1 == GUARD && F2[i].g0 == GUARD && F2[i].g1 == GUARD, "memory between the strided slots was written near cell %d", i);
  }
  for (int i = 0; i < 9; i++) {
    int slot = cur->layout == 1 ? 2 * i : i;   /* which storage cell item i uses */
    if (slot >= 9) break;
    void * res = cur->layout == 2 ? items[i].result : R2[slot].v;
    void * id = cur->layout == 2 ? (void *)items[i].id : I2[slot].v;
    if (i < n) {
      int which = cur->various ? i % 3 : 0;
      if (cur->res) MV_CHECK(res == (void *)(long)(9000 + i * 10 + which), "result slot of item %d holds %p, the sequential loop stores %p", i, res, (void *)(long)(9000 + i * 10 + which));
      else MV_CHECK(res == (void *)0x1111, "result slot written although results == NULL");
      if (cur->ids) MV_CHECK(id != (void *)0x2222 && id != NULL, "id slot of item %d was not filled", i);
      else MV_CHECK(id == (void *)0x2222, "id slot written although ids == NULL");
    } else {
      MV_CHECK(res == (void *)0x1111 && id == (void *)0x2222, "slots of item %d beyond n were written", i);
    }
  }
  if (cur->layout == 1) for (int i = 1; i < 9; i += 2) MV_CHECK(R2[i].v == (void *)0x1111 && I2[i].v == (void *)0x2222, "cell %d between two strided slots was written", i);
  mv_obs("n=%d ok", n);
  mv_finish();
}
static uint64_t cover_required(int tier) { (void)tier; return 0; }
mc_harness_t mc_harness = { "C17", "bulk", nprogs, describe, config, run, 0, cover_required };
